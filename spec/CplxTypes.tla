------------------------------ MODULE CplxTypes ------------------------------
(***************************************************************************)
(* C23.  Complex and real mode node handling.                               *)
(*                                                                         *)
(* The module EXTENDS the UFL language machine (UFLBuild: store of nodes,   *)
(* every constructor as an action, exact Gaussian-rational denotation of    *)
(* every node in every environment) and adds the two mode passes of         *)
(* compute_form_data as FINAL actions:                                      *)
(*                                                                         *)
(*   cmp_check       complex mode : algorithms/comparison_checker.py        *)
(*   remove_complex  real mode    : algorithms/remove_complex_nodes.py      *)
(*                                                                         *)
(* Part 1 transcribes the checker AS CODED: TypeOf = the type the class     *)
(* CheckComparisons assigns to a node (one CASE arm per handler) and        *)
(* CheckVerdict = does the pass raise ComplexComparisonError.               *)
(* Part 2 states the MEANING of a type: MayBeComplex(n) = the value of n    *)
(* has a non-zero imaginary part in some model environment.  Environment 1  *)
(* is REAL DATA (every terminal real), the last environment gives generic   *)
(* non-real values to every terminal the documentation calls complex        *)
(* (coefficients, constants) and real values to the terminals it calls      *)
(* real (arguments = basis functions, geometric quantities).                *)
(* Part 3 are the theorems TLC checks on every reachable program:           *)
(*   TypeSound    typed real/bool  =>  value real in every environment      *)
(*   CheckSound   accepted  =>  every ordering comparison / min / max /     *)
(*                sign below has real-valued operands in every environment  *)
(*   WrapNeutral  accepted  =>  rebuilding every such node on               *)
(*                Real(operand) (what the pass does) gives the same value,  *)
(*                in every environment, in particular for real data         *)
(*   RemoveNeutral real mode accepted  =>  on real data every node below    *)
(*                is real valued and every conj / real node has the value   *)
(*                of its operand (so removing it changes nothing)           *)
(* The binding (vf/checks/c23.py) replays every dumped program through the  *)
(* public API and the real passes and compares verdict, shape, free indices *)
(* and value.                                                               *)
(***************************************************************************)
EXTENDS UFLBuild

CONSTANTS
  RealTermNames,  \* names of the terminals of a kind CheckComparisons.terminal types real
                  \* (Argument, GeometricQuantity); every other terminal is a Coefficient/Constant
  PowLitOnly,     \* TRUE: the exponent of a scalar power is a literal (see c23.py: slices)
  CondRule        \* "all": a conditional is typed by expr(), i.e. by its condition and both values (the code);
                  \* "true": by its true value only -- an UNSOUND lattice, used by the self-test of the
                  \* harness, which requires TLC to refute it (TypeSound / CheckSound)

ModeOps  == {"cmp_check", "remove_complex"}
OrderOps == {"lt", "gt", "le", "ge"}
CmpOps   == OrderOps \cup {"max", "min", "sign"}
RealEnv  == 1                    \* the real-data environment

LastN   == store[Len(store)]
LitVal(x) == x.val[1][<< >>]
IsZeroLit(x) == x.op = "zero" \/ (x.op = "lit" /\ LitVal(x) = C0)
\* as_ufl(number): IntValue / FloatValue (both RealValue) or Zero for a real number, ComplexValue else
IsRealLit(x) == x.op = "lit" /\ CIsReal(LitVal(x))
IsCplxLit(x) == x.op = "lit" /\ ~CIsReal(LitVal(x))
Below(n) == Anc(n, {})           \* n and everything it is built from

-----------------------------------------------------------------------------
(* Part 1a.  The type lattice of CheckComparisons, as coded.  Types: "real", "complex" and   *)
(* "bool" (the mark compare()/max_value()/min_value() leave on the node they rebuild).       *)
(* The handlers see the DAG the public API builds:                                           *)
(*   a[..] / a*b with a repeated index  -> IndexSum(.., MultiIndex): handler expr(); the     *)
(*       MultiIndex operand is a terminal that is none of the real kinds -> "complex";       *)
(*   variable(e) -> Variable(e, Label): the Label operand likewise -> "complex";             *)
(*   sign(x) -> conditional(eq(x,0), 0, conditional(lt(x,0), -1, 1))  (operators.py; there   *)
(*       is no Sign node class, the handler `sign` is never reached);                        *)
(*   tensor**2 -> Inner(a, a).                                                               *)

RECURSIVE TypeOf(_)
\* expr(): "complex" if some operand is complex, else "real" (a "bool" operand counts as not complex)
Prop(as) == IF \E k \in 1..Len(as) : TypeOf(as[k]) = "complex" THEN "complex" ELSE "real"
TypeOf(n) == LET x == store[n] IN
  CASE x.op = "term" -> IF x.nm \in RealTermNames THEN "real" ELSE "complex"          \* terminal()
    [] x.op = "lit"  -> IF IsRealLit(x) THEN "real" ELSE "complex"                   \* terminal(): RealValue | Zero
    [] x.op = "zero" -> "real"                                                       \* terminal(): Zero
    [] x.op \in OrderOps -> "bool"                                                   \* compare()
    [] x.op \in {"max", "min"} -> "bool"                                             \* max_value(), min_value()
    [] x.op \in {"abs", "real", "imag"} -> "real"                                    \* abs(), real(), imag()
    [] x.op = "sqrt" -> "complex"                                                    \* sqrt()
    [] x.op = "pow" ->                                                               \* power()
         LET b == store[x.args[1]]  ex == store[x.args[2]] IN
         IF Rank(b) > 0 THEN Prop(<<x.args[1]>>)          \* Inner(a, a): expr()
         \* float(exponent) succeeds for a real literal only; "real" needs nodetype[base] == "real"
         \* (a base marked "bool", e.g. max_value(..)**2, is not "real")
         ELSE IF TypeOf(x.args[1]) = "real" /\ IsRealLit(ex) /\ LitVal(ex)[1][2] = 1 THEN "real"
         ELSE "complex"
    [] x.op = "index" ->                                                             \* indexed() / expr() on IndexSum
         IF IdxRep(store[x.args[1]], x.mi) # {} THEN "complex" ELSE TypeOf(x.args[1])
    [] x.op \in {"mul", "dot", "inner", "outer"} ->                                  \* expr() (on IndexSum when an index repeats)
         IF MulRep(store[x.args[1]], store[x.args[2]]) # {} THEN "complex" ELSE Prop(x.args)
    [] x.op = "variable" -> "complex"                                                \* expr() with a Label operand
    [] x.op = "cond" -> IF CondRule = "true" THEN Prop(<<x.args[2]>>) ELSE Prop(x.args)      \* expr(): condition, true and false value
    [] x.op \in {"add", "sub", "neg", "div", "conj", "eq", "ne", "and", "or", "not", "sign"} -> Prop(x.args)   \* expr()

(* Part 1b.  The verdict of do_comparison_check, as coded: compare() / max_value() /        *)
(* min_value() raise when one of the operands is typed "complex".                            *)
CmpBelow(a) == {k \in Below(a) : store[k].op \in CmpOps}
CheckVerdict(a) ==
  IF \E k \in CmpBelow(a) : \E i \in 1..Len(store[k].args) : TypeOf(store[k].args[i]) = "complex"
  THEN "reject" ELSE "ok"

(* Part 1c.  The verdict of remove_complex_nodes, as coded: imag() and a ComplexValue        *)
(* terminal raise; conj(a) and real(a) are replaced by a.                                    *)
RealModeVerdict(a) ==
  IF \E k \in Below(a) : store[k].op = "imag" \/ IsCplxLit(store[k]) THEN "reject" ELSE "ok"

-----------------------------------------------------------------------------
(* Part 2.  Meaning. *)
RealOrUndef(v) == ~CDef(v) \/ CIsReal(v)
MayBeComplex(n) == \E e \in Envs : \E t \in DOMAIN store[n].val[e] : ~RealOrUndef(store[n].val[e][t])

\* the value of comparison node k when it is rebuilt on Real(operand) -- compare():
\* o._ufl_expr_reconstruct_(*map(Real, ops)).  Operands of these nodes are true scalars.
SV(a, e) == store[a].val[e][<< >>]
WrapVal(k, e) ==
  LET x == store[k]
      z == CRe(SV(x.args[1], e))
  IN IF x.op \in OrderOps THEN CmpVal(x.op, z, CRe(SV(x.args[2], e)))
     ELSE IF x.op \in {"max", "min"} THEN
       LET w == CRe(SV(x.args[2], e)) IN
       IF ~CCmpDef(z, w) THEN CU
       ELSE IF x.op = "max" THEN (IF CLt(w, z) THEN z ELSE w) ELSE (IF CLt(z, w) THEN z ELSE w)
     ELSE \* sign(y) = conditional(eq(y, 0), 0, conditional(lt(Real(y), 0), -1, 1)): eq is not wrapped
       LET y == SV(x.args[1], e) IN
       IF ~CDef(y) THEN CU ELSE IF y = C0 THEN C0 ELSE IF CLt(z, C0) THEN CI(-1) ELSE C1

\* rejected although every compared operand is defined and real valued in every environment: the
\* lattice is incomplete here (reported to the harness as a count, never as a violation).  Operands
\* with an undefined value (e.g. the root of a negative number, which is imaginary in complex mode
\* but outside CQ's fragment) are not claimed.
DefReal(n) == \A e \in Envs : \A t \in DOMAIN store[n].val[e] :
                 CDef(store[n].val[e][t]) /\ CIsReal(store[n].val[e][t])
Incomplete(a) ==
  /\ CheckVerdict(a) = "reject"
  /\ \A k \in CmpBelow(a) : \A i \in 1..Len(store[k].args) : DefReal(store[k].args[i])

-----------------------------------------------------------------------------
(* The mode passes as final actions.  The node records the verdict in `nm`; an accepted      *)
(* pass denotes what its operand denotes (cmp_check: in every environment -- theorem         *)
(* WrapNeutral; remove_complex: on real data -- theorem RemoveNeutral; no claim is made for  *)
(* real mode on complex data), a rejected one denotes nothing.                               *)
Undef(x, e) == [t \in DOMAIN x.val[e] |-> CU]
DoCmpCheck(a) == LET x == store[a]  v == CheckVerdict(a) IN
  /\ IsVal(x)
  /\ Push(Node("cmp_check", <<a>>, << >>, v, x.sh, x.fi,
               [e \in Envs |-> IF v = "ok" THEN x.val[e] ELSE Undef(x, e)]))
DoRemoveComplex(a) == LET x == store[a]  v == RealModeVerdict(a) IN
  /\ IsVal(x)
  /\ Push(Node("remove_complex", <<a>>, << >>, v, x.sh, x.fi,
               [e \in Envs |-> IF v = "ok" /\ e = RealEnv THEN x.val[e] ELSE Undef(x, e)]))

(* Programs are restricted to those whose UFL DAG is the DAG of the program: UFL folds       *)
(* arithmetic on literals to one literal and drops zero operands when the node is built, and *)
(* represents scalar*tensor, tensor/scalar and -tensor by component tensors that it          *)
(* re-simplifies when they are indexed; a conditional with identical branches is the branch. *)
(* (The harness judges the remaining construction-time simplifications on the real object.)  *)
FoldOps == {"add", "sub", "neg", "mul", "div", "pow", "abs", "conj", "real", "imag", "sqrt",
            "dot", "inner", "outer", "index"}
LitLike(k) == store[k].op \in {"lit", "zero"}
Admitted(n) ==
  /\ n.op \in FoldOps => /\ \E i \in 1..Len(n.args) : ~LitLike(n.args[i])
                         /\ \A i \in 1..Len(n.args) : ~IsZeroLit(store[n.args[i]])
  /\ n.op = "cond" => n.args[2] # n.args[3]         \* conditional(c, a, a) is built as a: c disappears
  /\ n.op \in {"mul", "outer"} => (Rank(store[n.args[1]]) = 0) = (Rank(store[n.args[2]]) = 0)
  /\ n.op \in {"div", "neg", "sub"} => Rank(store[n.args[1]]) = 0
  /\ (PowLitOnly /\ n.op = "pow" /\ Rank(store[n.args[1]]) = 0) => store[n.args[2]].op = "lit"

\* Search pruning only: a program is handed to the harness when every constructed node is an ancestor
\* of the final pass (UFLBuild: Live); a node can use at most 3 (cond) resp. 2 earlier results, so a
\* store with too many unused results can never become such a program.
Roots(s) == {k \in (NInit + 1)..Len(s) :
               \A j \in (k + 1)..Len(s) : \A i \in 1..Len(s[j].args) : s[j].args[i] # k}
Gain == IF "cond" \in OpSet THEN 2 ELSE 1
CanFinish(s) == Cardinality(Roots(s)) <= 1 + Gain * (NInit + MaxNodes - 1 - Len(s))

NextC ==
  \* every constructor of the language; the base machine's value-preserving pass of the same
  \* name is replaced by the verdict-carrying actions below
  \/ /\ CurOps \ ModeOps # {}          \* (speed) at the level of the passes no constructor is enabled
     /\ Next
     /\ store'[Len(store')].op \notin ModeOps
     /\ Admitted(store'[Len(store')])
     /\ CanFinish(store')
  \/ /\ Room
     /\ \E a \in Ids : NotFinal(a) /\ Roots(store) = {a} /\      \* (pruning) the pass is applied to the whole program
          \/ "cmp_check" \in CurOps /\ DoCmpCheck(a)
          \/ "remove_complex" \in CurOps /\ DoRemoveComplex(a)

SpecC == Init /\ [][NextC]_vars

-----------------------------------------------------------------------------
(* Part 3.  Theorems (invariants). *)

\* soundness of the lattice: what is not typed "complex" is real valued in every environment
TypeSound ==
  (Len(store) > NInit /\ LastN.op \notin ModeOps) =>
     (TypeOf(Len(store)) # "complex" => ~MayBeComplex(Len(store)))

Accepted(op) == Len(store) > NInit /\ LastN.op = op /\ LastN.nm = "ok"

\* an accepted integrand orders only real-valued quantities, whatever the data
CheckSound ==
  Accepted("cmp_check") =>
     \A k \in CmpBelow(LastN.args[1]) : \A i \in 1..Len(store[k].args) : ~MayBeComplex(store[k].args[i])

\* wrapping the compared operands in Real(.) changes no value (every environment; RealEnv is the
\* "unchanged for real data" clause of the property)
WrapNeutral ==
  Accepted("cmp_check") =>
     \A k \in CmpBelow(LastN.args[1]) : \A e \in Envs : WrapVal(k, e) = SV(k, e)

\* real mode: on real data everything below an accepted integrand is real valued, and conj / real
\* nodes denote what their operand denotes
RemoveNeutral ==
  Accepted("remove_complex") =>
     \A k \in Below(LastN.args[1]) :
        /\ \A t \in DOMAIN store[k].val[RealEnv] : RealOrUndef(store[k].val[RealEnv][t])
        /\ store[k].op \in {"conj", "real"} => store[k].val[RealEnv] = store[store[k].args[1]].val[RealEnv]

\* the verdict stored in the node is the coded verdict (the actions are the only writers)
VerdictStored ==
  (Len(store) > NInit /\ LastN.op \in ModeOps) =>
     LastN.nm = (IF LastN.op = "cmp_check" THEN CheckVerdict(LastN.args[1]) ELSE RealModeVerdict(LastN.args[1]))

-----------------------------------------------------------------------------
(* Conditionals below a compared operand.  conditional(c, t, f) has no handler of its own:   *)
(* expr() types it by ALL of c, t and f (Part 1a).  For the binding every conditional that   *)
(* reaches an ordering comparison / min / max (as the operand or below it) is classified by   *)
(* the coded types of its condition and its two values, "r" (not complex) or "c": "rrr",     *)
(* "rrc" (complex through the false value only), "rcr", "crr" (through the condition), ...;   *)
(* a "!" is appended when the conditional itself has a non-real value in some environment    *)
(* (the complex branch is the one selected there: the rejection is witnessed by a value).    *)
(* The harness requires the classes a slice is built for to be generated (vacuity).          *)
RC(n) == IF TypeOf(n) = "complex" THEN "c" ELSE "r"
CondKind(j) == RC(store[j].args[1]) \o RC(store[j].args[2]) \o RC(store[j].args[3]) \o (IF MayBeComplex(j) THEN "!" ELSE "")
ComparedBelow(a) == UNION {UNION {Below(store[k].args[i]) : i \in 1..Len(store[k].args)} : k \in CmpBelow(a)}
CondOperands(a) == {CondKind(j) : j \in {j \in ComparedBelow(a) : store[j].op = "cond"}}
\* a rejection is WITNESSED when some compared operand has a non-real value in a model environment
Witnessed(a) == \E k \in CmpBelow(a) : \E i \in 1..Len(store[k].args) : MayBeComplex(store[k].args[i])

-----------------------------------------------------------------------------
(* Dump for the binding: DumpRec's fields + pass, predicted verdict, diagnostics. *)
CDumpRec == LET x == LastN  a == x.args[1] IN
  [prog |-> [k \in 1..(Len(store) - NInit) |-> Prog[NInit + k]],
   sh |-> x.sh, fi |-> x.fi, bool |-> FALSE,
   val |-> [e \in Envs |-> TabSeq(x.val[e])],
   pass |-> x.op, verdict |-> x.nm,
   optype |-> TypeOf(a),                                    \* type of the integrand as coded
   ncmp |-> Cardinality(CmpBelow(a)),                       \* comparison nodes below
   ncplx |-> Cardinality({k \in Below(a) : store[k].op \in {"conj", "real", "imag"} \/ IsCplxLit(store[k])}),
   inc |-> (x.op = "cmp_check" /\ Incomplete(a)),           \* rejected although always real
   wit |-> (x.op = "cmp_check" /\ Witnessed(a)),            \* some compared operand has a non-real value
   condops |-> IF x.op = "cmp_check" THEN SetToSeq(CondOperands(a)) ELSE << >>,
   maybe |-> MayBeComplex(a)]
DumpInvC == (Live /\ LastN.op \in ModeOps) => PrintT(ToJson(CDumpRec))
=============================================================================
