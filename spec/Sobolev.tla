------------------------------- MODULE Sobolev -------------------------------
(***************************************************************************)
(* C25.  The inclusion order of the Sobolev spaces of ufl/sobolevspace.py. *)
(*                                                                         *)
(* The module states the INTENDED relation (from the declared parent graph *)
(* and the meaning of directional smoothness orders), proves with TLC that *)
(* it is a partial order on which the six comparison operators are         *)
(* mutually consistent, and prints the complete operator table, which the  *)
(* harness compares entry by entry with the real classes.                  *)
(*                                                                         *)
(* Spaces are records [k, name, ord]:                                      *)
(*   k = "plain": one of the twelve predefined spaces, ord = << >>         *)
(*   k = "dir"  : DirectionalSobolevSpace(ord), entries in 0..3 or Inf     *)
(* The state machine walks over all triples of spaces of one universe      *)
(* (plain spaces + directional spaces of the spatial dimensions DirLens);    *)
(* its invariants are the order laws.                                      *)
(***************************************************************************)
EXTENDS Naturals, Sequences, FiniteSets, TLC, Json, SequencesExt

CONSTANTS DirLens,     \* spatial dimensions of the directional spaces in this universe (a set: spaces of
                       \* different dimensions are incomparable unless isotropic)
          MaxOrd       \* finite smoothness orders are 0..MaxOrd, plus Inf

Inf == 99
Orders == (0..MaxOrd) \cup {Inf}

PlainNames == {"L2", "HDiv", "HCurl", "H1", "H1Div", "H1Curl", "H2", "H3", "HInf",
               "HEin", "HDivDiv", "HCurlDiv"}

\* Declared parents, exactly the constructor calls at the bottom of sobolevspace.py.
Declared(n) ==
  CASE n = "L2"       -> {}
    [] n = "HDiv"     -> {"L2"}
    [] n = "HCurl"    -> {"L2"}
    [] n = "H1"       -> {"HCurl", "HDiv", "L2"}
    [] n = "H1Div"    -> {"H1"}
    [] n = "H1Curl"   -> {"H1"}
    [] n = "H2"       -> {"H1Curl", "H1Div", "H1"}
    [] n = "H3"       -> {"H2"}
    [] n = "HInf"     -> {"H3"}
    [] n = "HEin"     -> {"L2"}
    [] n = "HDivDiv"  -> {"L2"}
    [] n = "HCurlDiv" -> {"L2"}

\* Reflexive-transitive closure of the declared graph = intended inclusion of plain spaces.
RECURSIVE Anc(_, _)
Anc(n, fuel) == IF fuel = 0 THEN {n}
                ELSE {n} \cup UNION {Anc(p, fuel - 1) : p \in Declared(n)}
PlainLe(a, b) == b \in Anc(a, Cardinality(PlainNames))

\* The isotropic space with k weak derivatives in every direction.
HName(k) == CASE k = 0 -> "L2" [] k = 1 -> "H1" [] k = 2 -> "H2" [] k = 3 -> "H3" [] OTHER -> "HInf"

Plain(n) == [k |-> "plain", name |-> n, ord |-> << >>]
Dir(o)   == [k |-> "dir", name |-> "DirectionalH", ord |-> o]

SeqMin(s) == CHOOSE x \in {s[i] : i \in DOMAIN s} : \A j \in DOMAIN s : x <= s[j]
SeqMax(s) == CHOOSE x \in {s[i] : i \in DOMAIN s} : \A j \in DOMAIN s : x >= s[j]

\* A directional space with all orders equal to k IS the isotropic space H^k
\* (the convention of DirectionalSobolevSpace.__eq__).
Iso(s) == s.k = "dir" /\ SeqMin(s.ord) = SeqMax(s.ord)
Norm(s) == IF Iso(s) THEN Plain(HName(s.ord[1])) ELSE s

\* Intended equality and inclusion.
Eq(a, b) == Norm(a) = Norm(b)

Le(a, b) ==
  LET x == Norm(a)  y == Norm(b) IN
  CASE x.k = "plain" /\ y.k = "plain" -> PlainLe(x.name, y.name)
    \* same number of directions: componentwise; different numbers of directions: only through an
    \* isotropic space between them (x in H^min(x) in H^max(y) in y), the transitive closure of the two
    \* mixed cases below
    [] x.k = "dir" /\ y.k = "dir" ->
         IF Len(x.ord) = Len(y.ord) THEN \A i \in DOMAIN x.ord : x.ord[i] >= y.ord[i]
         ELSE SeqMin(x.ord) >= SeqMax(y.ord)
    \* D(o) is contained in H^min(o) and contains H^max(o); these bounds are sharp.
    [] x.k = "dir" /\ y.k = "plain" -> PlainLe(HName(SeqMin(x.ord)), y.name)
    [] x.k = "plain" /\ y.k = "dir" -> PlainLe(x.name, HName(SeqMax(y.ord)))

Lt(a, b) == Le(a, b) /\ ~Eq(a, b)

DirSpaces == UNION {{Dir(o) : o \in [1..n -> Orders]} : n \in DirLens}
Universe == {Plain(n) : n \in PlainNames} \cup DirSpaces

VARIABLES a, b, c
vars == <<a, b, c>>

Init == a \in Universe /\ b \in Universe /\ c \in Universe
Next == UNCHANGED vars
Spec == Init /\ [][Next]_vars

\* ---- the order laws (invariants over every triple) ----
Reflexive     == Le(a, a) /\ Eq(a, a) /\ ~Lt(a, a)
EqEquivalence == (Eq(a, b) => Eq(b, a)) /\ (Eq(a, b) /\ Eq(b, c) => Eq(a, c))
Antisymmetric == Le(a, b) /\ Le(b, a) => Eq(a, b)
Transitive    == (Le(a, b) /\ Le(b, c) => Le(a, c)) /\ (Lt(a, b) /\ Lt(b, c) => Lt(a, c))
LeIsLtOrEq    == Le(a, b) <=> (Lt(a, b) \/ Eq(a, b))
Asymmetric    == Lt(a, b) => ~Lt(b, a)
\* equal spaces are interchangeable in every comparison
EqCongruence  == Eq(a, b) => (Le(a, c) <=> Le(b, c)) /\ (Le(c, a) <=> Le(c, b))
\* the declared graph is respected
DeclaredHolds == \A n \in PlainNames : \A p \in Declared(n) : Lt(Plain(n), Plain(p))
\* sanity: the chain and the known incomparabilities
Sanity == /\ Lt(Plain("H2"), Plain("H1")) /\ Lt(Plain("H1"), Plain("HDiv"))
          /\ ~Le(Plain("HDiv"), Plain("HCurl")) /\ ~Le(Plain("HCurl"), Plain("HDiv"))

\* ---- the table handed to the conformance check ----
Enc(s) == [k |-> s.k, name |-> s.name, ord |-> s.ord]
TableSeq ==
  SetToSeq({[a |-> Enc(x), b |-> Enc(y), lt |-> Lt(x, y), le |-> Le(x, y), eq |-> Eq(x, y)]
            : <<x, y>> \in Universe \X Universe})

ASSUME PrintT(ToJson(TableSeq))
=============================================================================
