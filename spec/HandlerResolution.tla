-------------------------- MODULE HandlerResolution --------------------------
(***************************************************************************)
(* C19 (dispatch part).  Which handler a type-dispatching algorithm class   *)
(* (MultiFunction, Transformer, DAGTraverser) binds to a UFL type.          *)
(*                                                                         *)
(* Types are 1..NT (typecode + 1 of the real classes); 0 stands for the    *)
(* root handler `ufl_type` / the singledispatch default, which the base    *)
(* class of the algorithm always defines.  `Bases[t]` is the sequence of   *)
(* direct UFL base types of t in declaration order -- the actual class     *)
(* graph, exported by vf/checks/c19.py from ufl.classes.  The ancestor     *)
(* chain of a type is the C3 linearisation of that graph (for single       *)
(* inheritance: the chain of parents); the handler of a type is the        *)
(* handler of the NEAREST type of its chain that defines one.              *)
(*                                                                         *)
(* `Cases[c]` is the set of types whose handler a subclass defines,        *)
(* `PreMF`/`PreTR`/`PreDT` the handlers predefined by the base class.      *)
(* TLC checks the laws of Resolve for every (type, case) and for every     *)
(* subset of every ancestor chain, and prints the predicted table, one     *)
(* case per step.                                                          *)
(***************************************************************************)
EXTENDS Naturals, Sequences, FiniteSets, TLC, Json

CONSTANTS Bases, Cases, PreMF, PreTR, PreDT

NT == Len(Bases)
Range(s) == {s[i] : i \in DOMAIN s}
MinOf(S) == CHOOSE x \in S : \A y \in S : x <= y

\* ---- C3 linearisation of the UFL class graph ----
RECURSIVE Merge(_)
Merge(ss) ==
  LET ne == SelectSeq(ss, LAMBDA s : s # <<>>) IN
  IF ne = <<>> THEN <<>>
  ELSE LET good == {i \in DOMAIN ne : \A j \in DOMAIN ne : Head(ne[i]) \notin Range(Tail(ne[j]))}
           h == Head(ne[MinOf(good)])
       IN <<h>> \o Merge([i \in DOMAIN ne |-> IF Head(ne[i]) = h THEN Tail(ne[i]) ELSE ne[i]])
RECURSIVE Lin(_)
Lin(t) == <<t>> \o Merge([i \in 1..Len(Bases[t]) |-> Lin(Bases[t][i])] \o <<Bases[t]>>)
LinTab == [ty \in 1..NT |-> Lin(ty)]

\* The state: `lin` holds the linearisation table (computed once, in Init); k counts the cases whose
\* predicted row has been printed, `cur` is case k.  One step = one case.
VARIABLES lin, k, cur
vars == <<lin, k, cur>>

L(ty) == lin[ty]
Anc(ty) == Range(L(ty))                        \* reflexive ancestors
Pos(ty, a) == CHOOSE i \in DOMAIN L(ty) : L(ty)[i] = a

\* ---- the resolution rule ----
Resolve(ty, D) ==
  LET idx == {i \in DOMAIN L(ty) : L(ty)[i] \in D} IN
  IF idx = {} THEN 0 ELSE L(ty)[MinOf(idx)]

\* ---- the table handed to the conformance check ----
\* (DAGTraverser predefines what MultiFunction predefines -- nothing --, see the ASSUME)
Row(c, D) == [case |-> c,
              mf |-> [ty \in 1..NT |-> Resolve(ty, D \cup PreMF)],
              tr |-> [ty \in 1..NT |-> Resolve(ty, D \cup PreTR)]]
ASSUME PreDT = PreMF

Init == /\ lin = LinTab /\ k = 0 /\ cur = {}
        /\ PrintT(ToJson([lin |-> LinTab]))
NextCase == /\ k < Len(Cases) /\ k' = k + 1 /\ cur' = Cases[k + 1] /\ UNCHANGED lin
            /\ PrintT(ToJson(Row(k + 1, Cases[k + 1])))
Done == k = Len(Cases) /\ UNCHANGED vars
Next == NextCase \/ Done
Spec == Init /\ [][Next]_vars

\* ---- laws ----
Laws(ty, D) ==
  LET r == Resolve(ty, D) IN
  /\ r \in D \cup {0}
  /\ ty \in D => r = ty
  \* nearest: nothing that defines a handler comes earlier in the chain
  /\ r # 0 => \A a \in D \cap Anc(ty) : Pos(ty, r) <= Pos(ty, a)
  /\ r = 0 <=> D \cap Anc(ty) = {}
  \* a type without its own handler behaves like its (single) parent
  /\ (ty \notin D /\ Len(Bases[ty]) = 1) => r = Resolve(Bases[ty][1], D)
  /\ (ty \notin D /\ Len(Bases[ty]) = 0) => r = 0

\* every type, the case of this state
LawsOnCases == k > 0 => \A ty \in 1..NT : Laws(ty, cur)
\* every type, every subset of its ancestor chain
LawsOnAllSubsets == k = 0 => \A ty \in 1..NT : \A D \in SUBSET Anc(ty) : Laws(ty, D)

IsSubseq(a, b) == \* a is a subsequence of b (both without repetitions)
  /\ Range(a) \subseteq Range(b)
  /\ \A i, j \in DOMAIN a : i < j =>
        (CHOOSE n \in DOMAIN b : b[n] = a[i]) < (CHOOSE n \in DOMAIN b : b[n] = a[j])
\* the defining properties of the linearisation
LinearisationOK ==
  k = 0 => \A ty \in 1..NT :
    LET M == L(ty) IN
    /\ M[1] = ty
    /\ \A i, j \in DOMAIN M : i # j => M[i] # M[j]
    /\ \A i \in 1..Len(Bases[ty]) : IsSubseq(L(Bases[ty][i]), M)      \* monotone
    /\ IsSubseq(Bases[ty], M)                                         \* local precedence
    /\ \A i, j \in DOMAIN M : i < j => M[i] \notin (Anc(M[j]) \ {M[j]})  \* subclasses first
=============================================================================
