-------------------------- MODULE HandlerResolution --------------------------
(***************************************************************************)
(* C19 (dispatch part).  Which handler a type-dispatching algorithm class   *)
(* (MultiFunction, Transformer, DAGTraverser) binds to a UFL type.          *)
(*                                                                         *)
(* Types are 1..NT (typecode + 1 of the real classes); 0 stands for the    *)
(* root handler `ufl_type` / the singledispatch default, which the base    *)
(* class of the algorithm always defines.  `Bases[t]` is the sequence of   *)
(* direct UFL base types of t in declaration order -- the actual class     *)
(* graph, exported by vf/checks/c19.py from ufl.classes.  The ancestor     *)
(* chain of a type is the C3 linearisation of that graph (for single       *)
(* inheritance: the chain of parents); the handler of a type is the        *)
(* handler of the NEAREST type of its chain that defines one.              *)
(*                                                                         *)
(* A handler table of MultiFunction / Transformer is a set of ATTRIBUTE     *)
(* NAMES: it defines a handler for type t iff it has an attribute whose    *)
(* name is the handler name of t, HandlerName(Names[t]) -- the class name  *)
(* `TypeName` written as `type_name` (a new word starts at a capital that  *)
(* follows a lower-case letter or a digit; `Atan2` -> `atan2`, `EQ` ->     *)
(* `eq`, `ExprList` -> `expr_list`).  `Names[t]` is the class name of t as *)
(* a sequence of one-character strings.  The universe of types is the      *)
(* import-time registry followed by late types (registered by the check    *)
(* with @ufl_type in a child process) whose names vary the alphabet:       *)
(* digits, runs of capitals, capitals after digits.                        *)
(*                                                                         *)
(* `Cases[c]` is the set of types whose handler a subclass defines (the    *)
(* subclass is then built with exactly the attributes                      *)
(* HandlerName(Names[t]), t \in Cases[c]); `AttrCases[c]` is the set of    *)
(* candidate attribute names of a handler table of the library itself;     *)
(* `AttrMF`/`AttrTR`/`AttrDT` the attribute names of the base classes (so   *)
(* premf/pretr are the types whose handler the base class predefines).    *)
(* TLC checks the laws of HandlerName for every name over `Alphabet` up    *)
(* to length `MaxLen` and for every registered name, the laws of Resolve   *)
(* for every (type, case) and for every subset of every ancestor chain,    *)
(* and prints the predicted tables (names, then one case per step).        *)
(***************************************************************************)
EXTENDS Naturals, Sequences, FiniteSets, TLC, Json

CONSTANTS Bases, Names, Cases, AttrCases, AttrMF, AttrTR, AttrDT, Alphabet, MaxLen

NT == Len(Bases)
Range(s) == {s[i] : i \in DOMAIN s}
MinOf(S) == CHOOSE x \in S : \A y \in S : x <= y

\* ---- handler names: TypeName -> type_name ----
UpperS == <<"A","B","C","D","E","F","G","H","I","J","K","L","M","N","O","P","Q","R","S","T","U","V","W","X","Y","Z">>
LowerS == <<"a","b","c","d","e","f","g","h","i","j","k","l","m","n","o","p","q","r","s","t","u","v","w","x","y","z">>
DigitS == {"0","1","2","3","4","5","6","7","8","9"}
IsUpper(c) == \E i \in 1..26 : UpperS[i] = c
IsLower(c) == \E i \in 1..26 : LowerS[i] = c
IsDigit(c) == c \in DigitS
ToLower(c) == IF IsUpper(c) THEN LowerS[CHOOSE i \in 1..26 : UpperS[i] = c] ELSE c
IsName(w) == Len(w) > 0 /\ \A i \in DOMAIN w : IsUpper(w[i]) \/ IsLower(w[i]) \/ IsDigit(w[i])

\* the definition: a capital that follows a lower-case letter or a digit starts a new word
StartsWord(w, i) == i > 1 /\ IsUpper(w[i]) /\ (IsLower(w[i - 1]) \/ IsDigit(w[i - 1]))
RECURSIVE HNFrom(_, _)
HNFrom(w, i) == IF i > Len(w) THEN <<>>
                ELSE (IF StartsWord(w, i) THEN <<"_">> ELSE <<>>) \o <<ToLower(w[i])>> \o HNFrom(w, i + 1)
HandlerName(w) == HNFrom(w, 1)

\* the loop as coded (ufl/utils/formatting.py: camel2underscore), one call per iteration:
\* `lastlower` = the previous character was a lower-case letter or a digit
RECURSIVE C2U(_, _, _, _)
C2U(w, i, lastlower, acc) ==
  IF i > Len(w) THEN acc
  ELSE LET c == w[i]
           thislower == IsLower(c) \/ IsDigit(c)
       IN C2U(w, i + 1, thislower,
              acc \o (IF ~thislower /\ lastlower THEN <<"_">> ELSE <<>>) \o <<IF thislower THEN c ELSE ToLower(c)>>)

Strip(s) == SelectSeq(s, LAMBDA c : c # "_")
NameLaws(w) ==
  LET h == HandlerName(w) IN
  /\ h = C2U(w, 1, FALSE, <<>>)                                   \* the loop computes the definition
  /\ Strip(h) = [i \in DOMAIN w |-> ToLower(w[i])]                \* the lower-case type name, split into words
  /\ \A i \in DOMAIN h : ~IsUpper(h[i])
  /\ Len(h) = Len(w) + Cardinality({i \in DOMAIN w : StartsWord(w, i)})
  \* an underscore separates a word ending in a lower-case letter or a digit from a word starting with a letter
  /\ \A i \in DOMAIN h : h[i] = "_" => /\ 1 < i /\ i < Len(h)
                                       /\ (IsLower(h[i - 1]) \/ IsDigit(h[i - 1]))
                                       /\ IsLower(h[i + 1])
  /\ (\A i \in DOMAIN w : ~IsUpper(w[i])) => h = w
NamesOver(A, n) == UNION {[1..m -> A] : m \in 1..n}

HNameTab == [t \in 1..NT |-> HandlerName(Names[t])]
\* the types for which a table with the attribute names `attrs` defines a handler (h: handler name per type)
DefsOf(h, attrs) == {t \in 1..NT : h[t] \in attrs}

\* ---- C3 linearisation of the UFL class graph ----
RECURSIVE Merge(_)
Merge(ss) ==
  LET ne == SelectSeq(ss, LAMBDA s : s # <<>>) IN
  IF ne = <<>> THEN <<>>
  ELSE LET good == {i \in DOMAIN ne : \A j \in DOMAIN ne : Head(ne[i]) \notin Range(Tail(ne[j]))}
           h == Head(ne[MinOf(good)])
       IN <<h>> \o Merge([i \in DOMAIN ne |-> IF Head(ne[i]) = h THEN Tail(ne[i]) ELSE ne[i]])
RECURSIVE Lin(_)
Lin(t) == <<t>> \o Merge([i \in 1..Len(Bases[t]) |-> Lin(Bases[t][i])] \o <<Bases[t]>>)
LinTab == [ty \in 1..NT |-> Lin(ty)]

\* The state: `lin` holds the linearisation table, `hn` the handler names and `premf`/`pretr` the types whose
\* handler the algorithm base classes predefine (all computed once, in Init); k counts the cases whose
\* predicted row has been printed, `cur` is case k.  One step = one case.
VARIABLES lin, hn, premf, pretr, k, cur
vars == <<lin, hn, premf, pretr, k, cur>>
Defs(attrs) == DefsOf(hn, attrs)

L(ty) == lin[ty]
Anc(ty) == Range(L(ty))                        \* reflexive ancestors
Pos(ty, a) == CHOOSE i \in DOMAIN L(ty) : L(ty)[i] = a

\* ---- the resolution rule ----
Resolve(ty, D) ==
  LET idx == {i \in DOMAIN L(ty) : L(ty)[i] \in D} IN
  IF idx = {} THEN 0 ELSE L(ty)[MinOf(idx)]

\* ---- the table handed to the conformance check ----
\* (DAGTraverser predefines what MultiFunction predefines -- nothing --, see the ASSUME)
SetToSeq(S) == LET RECURSIVE F(_)
                   F(T) == IF T = {} THEN <<>> ELSE LET m == MinOf(T) IN <<m>> \o F(T \ {m})
               IN F(S)
Row(c, D) == [case |-> c,
              d  |-> SetToSeq(D),
              mf |-> [ty \in 1..NT |-> Resolve(ty, D \cup premf)],
              tr |-> [ty \in 1..NT |-> Resolve(ty, D \cup pretr)]]
ASSUME DefsOf(HNameTab, AttrDT) = DefsOf(HNameTab, AttrMF)
\* two registered types never share a handler name (else a table could not tell them apart)
ASSUME LET h == HNameTab IN \A s, t \in 1..NT : s # t => h[s] # h[t]
ASSUME \A t \in 1..NT : IsName(Names[t])

NCases == Len(Cases) + Len(AttrCases)
CaseSet(c) == IF c <= Len(Cases) THEN Cases[c] ELSE Defs(AttrCases[c - Len(Cases)])

Init == /\ lin = LinTab /\ k = 0 /\ cur = {}
        /\ hn = HNameTab /\ premf = DefsOf(hn, AttrMF) /\ pretr = DefsOf(hn, AttrTR)
        /\ PrintT(ToJson([lin |-> lin]))
        /\ PrintT(ToJson([names |-> hn, premf |-> SetToSeq(premf), pretr |-> SetToSeq(pretr), predt |-> SetToSeq(DefsOf(hn, AttrDT))]))
NextCase == /\ k < NCases /\ k' = k + 1 /\ cur' = CaseSet(k + 1) /\ UNCHANGED <<lin, hn, premf, pretr>>
            /\ PrintT(ToJson(Row(k + 1, cur')))
Done == k = NCases /\ UNCHANGED vars
Next == NextCase \/ Done
Spec == Init /\ [][Next]_vars

\* ---- laws ----
\* handler names: every name over the alphabet up to MaxLen, and every registered name
NameLawsOK == k = 0 => /\ \A w \in NamesOver(Alphabet, MaxLen) : NameLaws(w)
                       /\ \A t \in 1..NT : NameLaws(Names[t])

Laws(ty, D) ==
  LET r == Resolve(ty, D) IN
  /\ r \in D \cup {0}
  /\ ty \in D => r = ty
  \* nearest: nothing that defines a handler comes earlier in the chain
  /\ r # 0 => \A a \in D \cap Anc(ty) : Pos(ty, r) <= Pos(ty, a)
  /\ r = 0 <=> D \cap Anc(ty) = {}
  \* a type without its own handler behaves like its (single) parent
  /\ (ty \notin D /\ Len(Bases[ty]) = 1) => r = Resolve(Bases[ty][1], D)
  /\ (ty \notin D /\ Len(Bases[ty]) = 0) => r = 0

\* every type, the case of this state
LawsOnCases == k > 0 => \A ty \in 1..NT : Laws(ty, cur)
\* every type, every subset of its ancestor chain
LawsOnAllSubsets == k = 0 => \A ty \in 1..NT : \A D \in SUBSET Anc(ty) : Laws(ty, D)

IsSubseq(a, b) == \* a is a subsequence of b (both without repetitions)
  /\ Range(a) \subseteq Range(b)
  /\ \A i, j \in DOMAIN a : i < j =>
        (CHOOSE n \in DOMAIN b : b[n] = a[i]) < (CHOOSE n \in DOMAIN b : b[n] = a[j])
\* the defining properties of the linearisation
LinearisationOK ==
  k = 0 => \A ty \in 1..NT :
    LET M == L(ty) IN
    /\ M[1] = ty
    /\ \A i, j \in DOMAIN M : i # j => M[i] # M[j]
    /\ \A i \in 1..Len(Bases[ty]) : IsSubseq(L(Bases[ty][i]), M)      \* monotone
    /\ IsSubseq(Bases[ty], M)                                         \* local precedence
    /\ \A i, j \in DOMAIN M : i < j => M[i] \notin (Anc(M[j]) \ {M[j]})  \* subclasses first
=============================================================================
