------------------------------ MODULE BaseForms ------------------------------
(***************************************************************************)
(* C28.  Base-form algebra has the semantics of the linear maps it denotes. *)
(*                                                                         *)
(* A finite-dimensional model: two function spaces V ~ Q^2, W ~ Q^3 and    *)
(* their duals.  A base form denotes a multilinear map, given by           *)
(*   args : the ordered list of its ARGUMENT SLOTS [n, sp, du]             *)
(*          (argument number, space, du = TRUE for a slot that takes a     *)
(*          covector, i.e. a Coargument in the dual space)                 *)
(*   t    : its coefficient tensor, a function from index tuples (one      *)
(*          index per slot, 1..Dim(space)) to exact rationals (CQ.tla).    *)
(* A program is a construction history: the store starts with the declared *)
(* leaves (forms, cofunctions, coefficients, matrices, coarguments,        *)
(* arguments, plain numbers 0) and every action appends one node (Add, Sub, *)
(* Neg, Scale, Action, Adjoint, Zero, Derivative, WSum, Repl).             *)
(*                                                                         *)
(* The meaning of a node is defined by CONTRACTION only:                   *)
(*   Action(A, B)  contracts the LAST slot of A with the FIRST slot of B   *)
(*                 (a primal slot pairs with a dual slot of the same       *)
(*                 space); remaining slots: those of A, then those of B,   *)
(*                 each keeping its number (ufl/action.py,                 *)
(*                 _get_action_form_arguments)                             *)
(*   Adjoint(A)    swaps the two slots (numbers 0, 1 stay in position)     *)
(*   Derivative    the Gateaux derivative, by its definition as a central  *)
(*                 difference (exact for polynomial degree <= 2, which the *)
(*                 guard ensures); a new slot in the space of the variable *)
(*                 with the next free number, or no new slot when the      *)
(*                 direction is a coefficient.                             *)
(*   WSum          w1 A + w2 B + w3 C with pairwise different weights: the *)
(*                 weighted sum of the three tensors (a FormSum of three   *)
(*                 components); nothing is said about the order or the     *)
(*                 grouping in which ufl keeps the components              *)
(*   Repl          ufl.replace(A, {q: r}): the tensor of A in the          *)
(*                 environment in which q has the value of r               *)
(*   a NUMBER 0    (Python 0, 0.0, ufl Zero()) as ONE operand of + or -    *)
(*                 denotes the zero map of the arity of the other operand  *)
(*                 (the neutral element of every space of multilinear      *)
(*                 maps): B + 0, 0 + B, B - 0 denote B and 0 - B denotes   *)
(*                 -B (sum([A, B]) = 0 + A + B, r = 0; r -= B, ...)        *)
(* Every pass that maps over integrands / components (expand_derivatives,  *)
(* apply_algebra_lowering, map_integrands, ...) denotes the identity on    *)
(* the map: the prediction of a node is also the prediction of its image.  *)
(* The module knows nothing of ufl's simplifications.  Guards mirror the   *)
(* compositions ufl refuses by design (cited at the guard).                *)
(***************************************************************************)
EXTENDS Integers, Sequences, FiniteSets, TLC, Json, SequencesExt, CQ

CONSTANTS MaxOps,    \* number of operations of a program
          LeafSel,   \* indices (into AllLeaves) of the declared leaves
          Weights,   \* indices into WeightSeq offered to Scale
          ZeroSel,   \* indices into ZeroSigs offered to Zero
          DerCoefs,  \* coefficient symbols one may differentiate with respect to
          DumpOn,    \* TRUE: print every live program as JSON
          SumSel,    \* indices into WeightTriples offered to WSum ({}: no weighted sums)
          ReplSel,   \* indices into ReplPairs offered to Repl ({}: no replacement)
          SumMode,   \* TRUE: only histories  components -> one weighted sum -> <= PostMax operations
          CompOps,   \* SumMode: the operations that may build the components ("act", "adj", ...)
          PostOps,   \* SumMode: the operations that may follow the weighted sum
          PostMax    \* SumMode: number of operations after the weighted sum

-----------------------------------------------------------------------------
(* Spaces, slots, index tuples *)
SV == 1
SW == 2
Dim(s) == IF s = SV THEN 2 ELSE 3
Slot(n, s, d) == [n |-> n, sp |-> s, du |-> d]

RECURSIVE Idx(_)
Idx(args) == IF args = <<>> THEN {<<>>}
             ELSE {Append(s, k) : s \in Idx(Front(args)), k \in 1..Dim(Last(args).sp)}

\* index tuples in lexicographic (row-major) order
RECURSIVE IdxSeq(_)
IdxSeq(args) ==
  IF args = <<>> THEN << <<>> >>
  ELSE LET pre == IdxSeq(Front(args))
           K   == Dim(Last(args).sp)
       IN [j \in 1..(Len(pre) * K) |-> Append(pre[((j - 1) \div K) + 1], ((j - 1) % K) + 1)]

RECURSIVE QSumSeq(_)
QSumSeq(s) == IF s = <<>> THEN Q0 ELSE QAdd(Head(s), QSumSeq(Tail(s)))
Dot(x, y) == QSumSeq([i \in DOMAIN x |-> QMul(x[i], y[i])])
MatVec(A, x) == [i \in DOMAIN A |-> Dot(A[i], x)]
IV(s) == [i \in DOMAIN s |-> QI(s[i])]                      \* integer vector
IM(m) == [i \in DOMAIN m |-> IV(m[i])]                      \* integer matrix
MaxI(a, b) == IF a >= b THEN a ELSE b

-----------------------------------------------------------------------------
(* The environment: values of the symbolic objects *)
\* coefficient symbols: 1 f in V, 2 f2 in V, 3 g in W, 4 c in V*, 5 c2 in V*, 6 d in W*
Coefs == 1..6
CoefSp(q) == IF q \in {1, 2, 4, 5} THEN SV ELSE SW
CoefDu(q) == q >= 4                                          \* a Cofunction
EnvBase == [q \in Coefs |->
  CASE q = 1 -> <<QI(2), QI(-3)>>
    [] q = 2 -> <<QI(5), QI(1)>>
    [] q = 3 -> <<QI(-1), QI(4), QI(3)>>
    [] q = 4 -> <<QN(3, 2), QI(-2)>>
    [] q = 5 -> <<QI(1), QI(4)>>
    [] q = 6 -> <<QI(-2), QI(1), QN(5, 2)>>]
Perturb(env, q) == [env EXCEPT ![q] = [i \in DOMAIN @ |-> QAdd(@[i], QI(i))]]

\* matrices Matrix(row space, column space): 1 (V,V) 2 (V,W) 3 (W,V) 4 (V,V*) 5 (V,W*) 6 (W,V*)
MatArgs(m) ==
  CASE m = 1 -> <<Slot(0, SV, FALSE), Slot(1, SV, FALSE)>>
    [] m = 2 -> <<Slot(0, SV, FALSE), Slot(1, SW, FALSE)>>
    [] m = 3 -> <<Slot(0, SW, FALSE), Slot(1, SV, FALSE)>>
    [] m = 4 -> <<Slot(0, SV, FALSE), Slot(1, SV, TRUE)>>
    [] m = 5 -> <<Slot(0, SV, FALSE), Slot(1, SW, TRUE)>>
    [] m = 6 -> <<Slot(0, SW, FALSE), Slot(1, SV, TRUE)>>
MatVal(m) ==
  CASE m = 1 -> IM(<< <<1, 2>>, <<3, 5>> >>)
    [] m = 2 -> IM(<< <<2, -1, 3>>, <<1, 4, -2>> >>)
    [] m = 3 -> IM(<< <<1, -2>>, <<3, 1>>, <<-1, 2>> >>)
    [] m = 4 -> IM(<< <<2, 1>>, <<-1, 3>> >>)
    [] m = 5 -> IM(<< <<1, 3, -1>>, <<2, -2, 1>> >>)
    [] m = 6 -> IM(<< <<3, 1>>, <<-2, 2>>, <<1, -1>> >>)

\* constants of the variational forms
A1 == IM(<< <<1, 2>>, <<3, 4>> >>)                   \* V x V
A2 == IM(<< <<1, -1, 2>>, <<3, 1, -2>> >>)           \* V x W
A3 == IM(<< <<2, 1>>, <<-1, 3>>, <<1, -2>> >>)       \* W x V
K1 == IV(<<2, -1>>)
B1 == IV(<<1, 3>>)
B2 == IV(<<2, -1, 1>>)

\* variational forms (v_n: argument number n; all integrals over a domain of measure 1 on
\* which every function is constant):
\*  1 a_VV  = inner(A1 u1, v0)            2 a_VW = inner(A2 u1, v0), u1 in W
\*  3 a_WV  = inner(A3 u1, v0), v0 in W   4 af_VV = (K1.f) inner(A1 u1, v0)
\*  5 L_V   = inner(B1, v0)               6 L_W  = inner(B2, v0)
\*  7 Lf_V  = inner(A1 f, v0)             8 Lf_W = inner(A3 f, v0)
\*  9 Lq_V  = (f.A1 f) inner(B1, v0)     10 J_q  = f.A1 f          11 J_fg = f.A2 g
FormArgs(id) ==
  CASE id \in {1, 4} -> <<Slot(0, SV, FALSE), Slot(1, SV, FALSE)>>
    [] id = 2 -> <<Slot(0, SV, FALSE), Slot(1, SW, FALSE)>>
    [] id = 3 -> <<Slot(0, SW, FALSE), Slot(1, SV, FALSE)>>
    [] id \in {5, 7, 9} -> <<Slot(0, SV, FALSE)>>
    [] id \in {6, 8} -> <<Slot(0, SW, FALSE)>>
    [] id \in {10, 11} -> <<>>
FormCoefs(id) == CASE id \in {4, 7, 8, 9, 10} -> {1} [] id = 11 -> {1, 3} [] OTHER -> {}
Deg0 == [q \in Coefs |-> 0]
FormDeg(id) ==
  CASE id \in {4, 7, 8} -> [Deg0 EXCEPT ![1] = 1]
    [] id \in {9, 10} -> [Deg0 EXCEPT ![1] = 2]
    [] id = 11 -> [Deg0 EXCEPT ![1] = 1, ![3] = 1]
    [] OTHER -> Deg0
FormT(id, env) ==
  LET f == env[1]
      g == env[3]
      ar == FormArgs(id)
  IN CASE id = 1 -> [s \in Idx(ar) |-> A1[s[1]][s[2]]]
       [] id = 2 -> [s \in Idx(ar) |-> A2[s[1]][s[2]]]
       [] id = 3 -> [s \in Idx(ar) |-> A3[s[1]][s[2]]]
       [] id = 4 -> LET sc == Dot(K1, f) IN [s \in Idx(ar) |-> QMul(sc, A1[s[1]][s[2]])]
       [] id = 5 -> [s \in Idx(ar) |-> B1[s[1]]]
       [] id = 6 -> [s \in Idx(ar) |-> B2[s[1]]]
       [] id = 7 -> LET v == MatVec(A1, f) IN [s \in Idx(ar) |-> v[s[1]]]
       [] id = 8 -> LET v == MatVec(A3, f) IN [s \in Idx(ar) |-> v[s[1]]]
       [] id = 9 -> LET sc == Dot(f, MatVec(A1, f)) IN [s \in Idx(ar) |-> QMul(sc, B1[s[1]])]
       [] id = 10 -> [s \in Idx(ar) |-> Dot(f, MatVec(A1, f))]
       [] id = 11 -> [s \in Idx(ar) |-> Dot(f, MatVec(A2, g))]

-----------------------------------------------------------------------------
(* Leaves.  k: "coef" Coefficient, "cof" Cofunction, "mat" Matrix, "form" Form,
   "coarg" Coargument(space*, 1), "arg" Argument (identity operand of an action),
   "num" the number zero as an operand of + and - : 1 Python int 0, 2 Python float 0.0, 3 ufl Zero() *)
Leaf(k, id) == [k |-> k, id |-> id]
AllLeaves == <<
  Leaf("coef", 1), Leaf("coef", 2), Leaf("coef", 3),                       \*  1.. 3
  Leaf("cof", 4), Leaf("cof", 5), Leaf("cof", 6),                          \*  4.. 6
  Leaf("mat", 1), Leaf("mat", 2), Leaf("mat", 3),                          \*  7.. 9
  Leaf("mat", 4), Leaf("mat", 5), Leaf("mat", 6),                          \* 10..12
  Leaf("form", 1), Leaf("form", 2), Leaf("form", 3), Leaf("form", 4),      \* 13..16
  Leaf("form", 5), Leaf("form", 6), Leaf("form", 7), Leaf("form", 8),      \* 17..20
  Leaf("form", 9), Leaf("form", 10), Leaf("form", 11),                     \* 21..23
  Leaf("coarg", 1), Leaf("coarg", 2),                                      \* 24..25  Coargument(V*,1), (W*,1)
  Leaf("arg", 1), Leaf("arg", 2), Leaf("arg", 3),                          \* 26..28  Argument(V,1), (W,1), (V,0)
  Leaf("num", 1), Leaf("num", 2), Leaf("num", 3) >>                        \* 29..31  0, 0.0, Zero()

CoargSp(id) == IF id = 1 THEN SV ELSE SW
ArgSp(id) == IF id = 2 THEN SW ELSE SV
ArgNo(id) == IF id = 3 THEN 0 ELSE 1

\* kind: "bf" a BaseForm; "coef" a primal Coefficient expression, an element of V = V** (one slot
\* that takes a covector); "arg" an Argument: the identity with a dual slot and a primal slot;
\* "num" the number zero: no slots of its own, it takes the arity of the base form it is added to
LeafKind(l) == CASE l.k = "coef" -> "coef" [] l.k = "arg" -> "arg" [] l.k = "num" -> "num" [] OTHER -> "bf"
LeafArgs(l) ==
  CASE l.k = "coef" -> <<Slot(0, CoefSp(l.id), TRUE)>>
    [] l.k = "cof" -> <<Slot(0, CoefSp(l.id), FALSE)>>
    [] l.k = "mat" -> MatArgs(l.id)
    [] l.k = "form" -> FormArgs(l.id)
    [] l.k = "coarg" -> <<Slot(0, CoargSp(l.id), FALSE), Slot(1, CoargSp(l.id), TRUE)>>
    [] l.k = "arg" -> <<Slot(0, ArgSp(l.id), TRUE), Slot(ArgNo(l.id), ArgSp(l.id), FALSE)>>
    [] l.k = "num" -> <<>>
LeafT(l, env) ==
  LET ar == LeafArgs(l) IN
  CASE l.k \in {"coef", "cof"} -> [s \in Idx(ar) |-> env[l.id][s[1]]]
    [] l.k = "mat" -> LET m == MatVal(l.id) IN [s \in Idx(ar) |-> m[s[1]][s[2]]]
    [] l.k = "form" -> FormT(l.id, env)
    [] l.k \in {"coarg", "arg"} -> [s \in Idx(ar) |-> IF s[1] = s[2] THEN Q1 ELSE Q0]
    [] l.k = "num" -> [s \in Idx(ar) |-> Q0]

LeafNode(l) ==
  [op |-> "leaf", a |-> 0, b |-> 0, c |-> 0, w |-> 0, w2 |-> 0, w3 |-> 0, q |-> 0, dir |-> 0, z |-> 0,
   lk |-> l.k, id |-> l.id,
   kind |-> LeafKind(l), args |-> LeafArgs(l),
   may |-> CASE l.k \in {"coef", "cof"} -> {l.id} [] l.k = "form" -> FormCoefs(l.id) [] OTHER -> {},
   deg |-> CASE l.k \in {"coef", "cof"} -> [Deg0 EXCEPT ![l.id] = 1]
             [] l.k = "form" -> FormDeg(l.id) [] OTHER -> Deg0,
   dif |-> TRUE, hasact |-> FALSE, idl |-> l.k \in {"coarg", "arg"}, isform |-> l.k = "form",
   isco |-> l.k = "coarg", hasform |-> l.k = "form"]

WeightSeq == <<QI(0), QI(1), QI(-1), QI(2), QN(1, 2)>>
\* weights of the three-component sums: non-zero, dyadic (exact as Python floats); every triple
\* offered to WSum has pairwise different entries; only the third triple (1, 3, -2) has a unit
\* weight
SumWeightSeq == <<QI(3), QI(-2), QN(1, 2), QI(5), QN(-3, 2), QI(-4), QI(1)>>
WeightTriples == << <<1, 2, 3>>, <<4, 5, 6>>, <<7, 1, 2>>, <<3, 6, 4>> >>
\* replace(A, {q: r}): f -> f2, f2 -> f, c -> c2, c2 -> c (same space, same kind)
ReplPairs == << <<1, 2>>, <<2, 1>>, <<4, 5>>, <<5, 4>> >>
ZeroSigs == << <<>>, <<Slot(0, SV, FALSE)>>, <<Slot(0, SW, FALSE)>>,
               <<Slot(0, SV, FALSE), Slot(1, SV, FALSE)>>, <<Slot(0, SV, FALSE), Slot(1, SW, FALSE)>>,
               <<Slot(0, SV, FALSE), Slot(1, SV, TRUE)>> >>

-----------------------------------------------------------------------------
(* Semantic operators on tensors (functions from index tuples to rationals) *)
TAdd(x, y)   == [s \in DOMAIN x |-> QAdd(x[s], y[s])]
TSub(x, y)   == [s \in DOMAIN x |-> QSub(x[s], y[s])]
TScale(w, x) == [s \in DOMAIN x |-> QMul(w, x[s])]
TZero(args)  == [s \in Idx(args) |-> Q0]
TAdj(x)      == [s \in {<<u[2], u[1]>> : u \in DOMAIN x} |-> x[<<s[2], s[1]>>]]
ActArgs(aa, ba) == SubSeq(aa, 1, Len(aa) - 1) \o Tail(ba)
\* contraction of the LAST slot of A with the FIRST slot of B
TAct(aa, ta, ba, tb) ==
  LET p == Len(aa) - 1
      K == Dim(aa[Len(aa)].sp)
      term(s, k) == QMul(ta[Append(SubSeq(s, 1, p), k)], tb[<<k>> \o SubSeq(s, p + 1, Len(s))])
  IN [s \in Idx(ActArgs(aa, ba)) |->
        IF K = 2 THEN QAdd(term(s, 1), term(s, 2))
        ELSE QAdd(QAdd(term(s, 1), term(s, 2)), term(s, 3))]
AdjArgs(aa) == <<Slot(0, aa[2].sp, aa[2].du), Slot(1, aa[1].sp, aa[1].du)>>
\* a primal slot pairs with a dual slot of the same space (action.py _check_function_spaces:
\* "Incompatible function spaces in Action" otherwise)
Pairs(s1, s2) == s1.sp = s2.sp /\ s1.du # s2.du
StrictInc(args) == \A i \in 1..(Len(args) - 1) : args[i].n < args[i + 1].n
NextN(args) == IF args = <<>> THEN 0 ELSE 1 + CHOOSE m \in {args[i].n : i \in DOMAIN args} :
                                              \A i \in DOMAIN args : args[i].n <= m

-----------------------------------------------------------------------------
(* The tensor a node denotes in an environment *)
RECURSIVE T(_, _, _)
T(st, i, env) ==
  LET nd == st[i]
      \* operand of + / -: the number zero is the zero map on the slots of the node
      Opd(k) == IF st[k].kind = "num" THEN TZero(nd.args) ELSE T(st, k, env)
  IN
  CASE nd.op = "leaf"  -> LeafT([k |-> nd.lk, id |-> nd.id], env)
    [] nd.op = "add"   -> TAdd(Opd(nd.a), Opd(nd.b))
    [] nd.op = "sub"   -> TSub(Opd(nd.a), Opd(nd.b))
    [] nd.op = "neg"   -> TScale(QI(-1), T(st, nd.a, env))
    [] nd.op = "scale" -> TScale(WeightSeq[nd.w], T(st, nd.a, env))
    [] nd.op = "act"   -> TAct(st[nd.a].args, T(st, nd.a, env), st[nd.b].args, T(st, nd.b, env))
    [] nd.op = "adj"   -> TAdj(T(st, nd.a, env))
    [] nd.op = "zero"  -> TZero(nd.args)
    [] nd.op = "wsum"  -> TAdd(TAdd(TScale(SumWeightSeq[nd.w], T(st, nd.a, env)),
                                    TScale(SumWeightSeq[nd.w2], T(st, nd.b, env))),
                               TScale(SumWeightSeq[nd.w3], T(st, nd.c, env)))
    [] nd.op = "repl"  -> T(st, nd.a, [env EXCEPT ![nd.q] = env[nd.dir]])
    [] nd.op = "der"   ->
         \* D_q[h] A = (A(q + h) - A(q - h)) / 2, exact because deg_q(A) <= 2
         LET q == nd.q
             K == Dim(CoefSp(q))
             Unit(k, sg) == [m \in 1..K |-> IF m = k THEN QI(sg) ELSE Q0]
             Shift(h, sg) == [env EXCEPT ![q] = [m \in 1..K |-> QAdd(@[m], QMul(QI(sg), h[m]))]]
         IN IF nd.dir = 0
            THEN LET pl == [k \in 1..K |-> T(st, nd.a, Shift(Unit(k, 1), 1))]
                     mi == [k \in 1..K |-> T(st, nd.a, Shift(Unit(k, 1), -1))]
                 IN [s \in Idx(nd.args) |->
                       QMul(QN(1, 2), QSub(pl[Last(s)][Front(s)], mi[Last(s)][Front(s)]))]
            ELSE LET pl == T(st, nd.a, Shift(env[nd.dir], 1))
                     mi == T(st, nd.a, Shift(env[nd.dir], -1))
                 IN [s \in Idx(nd.args) |-> QMul(QN(1, 2), QSub(pl[s], mi[s]))]

-----------------------------------------------------------------------------
VARIABLES store,   \* the construction history: declared leaves, then one node per operation
          tv,      \* tv[i] = T(store, i, EnvBase), kept so that it is computed once per node
          tp       \* tp[i][q] = T(store, i, Perturb(EnvBase, q)) for the coefficients q in store[i].may
vars == <<store, tv, tp>>

LeafSeq == SelectSeq([i \in DOMAIN AllLeaves |-> [i |-> i, l |-> AllLeaves[i]]], LAMBDA e : e.i \in LeafSel)
NL == Cardinality(LeafSel)
NOps(st) == Len(st) - NL
Refs(nd) == {nd.a, nd.b, nd.c} \ {0}
Roots(st) == {k \in (NL + 1)..Len(st) : \A m \in (k + 1)..Len(st) : k \notin Refs(st[m])}
HasSum(st) == \E k \in DOMAIN st : st[k].op = "wsum"
SumAt(st) == CHOOSE k \in DOMAIN st : st[k].op = "wsum"
\* strict lexicographic order on integer sequences of the same length
LexLess(s, t) == \E i \in DOMAIN s : s[i] < t[i] /\ \A j \in 1..(i - 1) : s[j] = t[j]
OpCode(o) == CASE o = "add" -> 1 [] o = "sub" -> 2 [] o = "neg" -> 3 [] o = "scale" -> 4
               [] o = "act" -> 5 [] o = "adj" -> 6 [] o = "zero" -> 7 [] o = "der" -> 8
               [] o = "wsum" -> 9 [] o = "repl" -> 10
OpKey(nd) == <<OpCode(nd.op), nd.a, nd.b, nd.w, nd.q, nd.dir, nd.z>>
\* no dead code: every operation must still be able to become part of the final node.
\* SumMode: the components (at most three roots, built by CompOps, independent consecutive ones
\* in increasing order of their keys: one representative per permutation), then the sum (it merges
\* up to three roots), then at most PostMax operations out of PostOps
Viable(st) ==
  LET n == Len(st) IN
  IF ~SumMode THEN Cardinality(Roots(st)) - 1 <= MaxOps - NOps(st)
  ELSE IF HasSum(st)
       THEN LET left == IF MaxOps - NOps(st) <= PostMax - (n - SumAt(st))
                        THEN MaxOps - NOps(st) ELSE PostMax - (n - SumAt(st))
            IN /\ left >= 0 /\ Cardinality(Roots(st)) - 1 <= left
               /\ n = SumAt(st) \/ st[n].op \in PostOps
       ELSE /\ Cardinality(Roots(st)) <= 3 /\ NOps(st) < MaxOps
            /\ st[n].op \in CompOps
            /\ (n - 1 > NL /\ (n - 1) \notin Refs(st[n])) => LexLess(OpKey(st[n - 1]), OpKey(st[n]))

Init == /\ store = [i \in 1..Len(LeafSeq) |-> LeafNode(LeafSeq[i].l)]
        /\ tv = [i \in 1..Len(LeafSeq) |-> LeafT(LeafSeq[i].l, EnvBase)]
        /\ tp = [i \in 1..Len(LeafSeq) |->
                  [q \in LeafNode(LeafSeq[i].l).may |-> LeafT(LeafSeq[i].l, Perturb(EnvBase, q))]]

\* isform: ufl holds the node as a Form (a sum of integrals), not as a FormSum / Action / ...
\* isco: ufl holds the node as a Coargument; hasform: a variational form occurs in the node
\* (both FALSE unless set with EXCEPT)
Node(op, a, b, kind, args, may, deg, dif, hasact, idl, isform) ==
  [op |-> op, a |-> a, b |-> b, c |-> 0, w |-> 0, w2 |-> 0, w3 |-> 0, q |-> 0, dir |-> 0, z |-> 0,
   lk |-> "", id |-> 0,
   kind |-> kind, args |-> args, may |-> may, deg |-> deg, dif |-> dif, hasact |-> hasact, idl |-> idl,
   isform |-> isform, isco |-> FALSE, hasform |-> FALSE]
Push(nd) == /\ NOps(store) < MaxOps
            /\ Viable(Append(store, nd))
            /\ store' = Append(store, nd)
            /\ tv' = Append(tv, T(Append(store, nd), Len(store) + 1, EnvBase))
            /\ tp' = Append(tp, [q \in nd.may |-> T(Append(store, nd), Len(store) + 1, Perturb(EnvBase, q))])
DegMax(x, y) == [q \in Coefs |-> MaxI(x[q], y[q])]
DegSum(x, y) == [q \in Coefs |-> x[q] + y[q]]

\* x + y, x - y on base forms with the same argument slots; f + f2 on primal coefficients
\* (action.py distributes over ufl.algebra.Sum only; -f or 2*f as right operand raise TypeError
\* "Action right argument must be either Coefficient or BaseForm")
AddSub(op) ==
  \E i, j \in DOMAIN store :
    LET x == store[i]  y == store[j] IN
    /\ x.kind = y.kind /\ x.args = y.args
    /\ x.kind = "bf" \/ (x.kind = "coef" /\ op = "add")
    /\ Push([Node(op, i, j, x.kind, x.args, x.may \cup y.may, DegMax(x.deg, y.deg),
                  x.dif /\ y.dif, x.hasact \/ y.hasact, x.idl /\ y.idl, x.isform /\ y.isform)
             EXCEPT !.hasform = x.hasform \/ y.hasform])
\* B + 0, 0 + B, B - 0, 0 - B: exactly one operand is a number zero (Python 0 / 0.0, ufl Zero()), the
\* other one a base form.  BaseForm.__add__ / Form.__add__ document the first three as no-ops that
\* return B itself ("Allow adding 0 or 0.0 as a no-op, needed for sum([a,b])"): the node keeps how
\* ufl holds B (isform, isco); 0 - B is held like -B (see Neg)
NumNegates(nd) == nd.op = "sub" /\ store[nd.a].kind = "num"
AddSubNum(op) ==
  \E i, j \in DOMAIN store :
    /\ {store[i].kind, store[j].kind} = {"num", "bf"}
    /\ LET x == IF store[i].kind = "bf" THEN store[i] ELSE store[j]
           nd == [Node(op, i, j, "bf", x.args, x.may, x.deg, x.dif, x.hasact, x.idl, x.isform)
                  EXCEPT !.hasform = x.hasform]
       IN Push(IF NumNegates(nd) THEN nd ELSE [nd EXCEPT !.isco = x.isco])
Neg ==
  \E i \in DOMAIN store :
    LET x == store[i] IN
    /\ x.kind = "bf"
    /\ Push([Node("neg", i, 0, "bf", x.args, x.may, x.deg, x.dif, x.hasact, x.idl, x.isform)
             EXCEPT !.hasform = x.hasform])
Scale ==
  \E i \in DOMAIN store, w \in Weights :
    LET x == store[i] IN
    /\ x.kind = "bf"
    /\ Push([Node("scale", i, 0, "bf", x.args, x.may, x.deg, x.dif, x.hasact, x.idl, x.isform)
             EXCEPT !.w = w, !.hasform = x.hasform])
\* Does node i hold an identity operand (Coargument / Argument) as a component of a (weighted) sum?
\* The action distributes over the components, and Action.__new__ returns the OTHER operand, with
\* its own argument numbers, for the identity component.  HasCof(i, q): the cofunction q is a
\* component of the sum i (its derivative w.r.t. q is the Coargument).
RECURSIVE HasCof(_, _)
HasCof(i, q) ==
  LET nd == store[i] IN
  \/ nd.op = "leaf" /\ nd.lk = "cof" /\ nd.id = q
  \/ nd.op \in {"add", "sub"} /\ \E k \in {nd.a, nd.b} : store[k].kind = "bf" /\ HasCof(k, q)
  \/ nd.op \in {"neg", "scale"} /\ HasCof(nd.a, q)
  \/ nd.op = "wsum" /\ \E k \in {nd.a, nd.b, nd.c} : HasCof(k, q)
  \/ nd.op = "repl" /\ ((nd.q # q /\ HasCof(nd.a, q)) \/ (nd.dir = q /\ HasCof(nd.a, nd.q)))
RECURSIVE HasIdl(_)
HasIdl(i) ==
  LET nd == store[i] IN
  \/ nd.idl
  \/ nd.op \in {"add", "sub"} /\ \E k \in {nd.a, nd.b} : store[k].kind = "bf" /\ HasIdl(k)
  \/ nd.op \in {"neg", "scale", "repl"} /\ HasIdl(nd.a)
  \/ nd.op = "wsum" /\ \E k \in {nd.a, nd.b, nd.c} : HasIdl(k)
  \/ nd.op = "der" /\ nd.dir = 0 /\ CoefDu(nd.q) /\ HasCof(nd.a, nd.q)
\* ufl.action(A, B)
Act ==
  \E i, j \in DOMAIN store :
    LET x == store[i]  y == store[j]  ra == ActArgs(x.args, y.args) IN
    /\ x.kind = "bf" /\ x.args # <<>> /\ y.args # <<>>
    /\ Pairs(Last(x.args), y.args[1])
    /\ StrictInc(ra)
    \* an identity operand (Coargument / Argument), also as a component of a sum, carries the
    \* number of the slot it replaces
    /\ HasIdl(j) => Last(y.args).n = Last(x.args).n
    /\ HasIdl(i) => x.args[1].n = y.args[1].n
    \* ufl.action(Form, e) is compute_form_action, which needs e.ufl_function_space(): a sum of
    \* coefficients is accepted (and distributed) by Action only
    /\ (y.kind = "coef" /\ y.op # "leaf") => ~x.isform
    \* identity acting on identity: nothing to contract
    /\ ~(x.idl /\ y.idl)
    \* formoperators.derivative: "Action derivative not supported when the left argument is not
    \* a 1-form"; the Leibniz rule there assumes the right operand contributes no slots, and it
    \* takes action(left, d(right)) through compute_form_action, which a Form as left operand of
    \* an Action object (only possible inside a distributed FormSum) does not support
    /\ Push([Node("act", i, j, "bf", ra, x.may \cup y.may, DegSum(x.deg, y.deg),
                  /\ Len(x.args) = 1 /\ Len(y.args) = 1 /\ y.kind # "arg" /\ x.dif /\ y.dif
                  /\ (y.kind = "coef" => (x.isform \/ ~x.hasform)),
                  TRUE, x.idl /\ y.idl,
                  \* Action.__new__ returns the other operand for an identity (Coargument/Argument)
                  IF x.isco THEN y.isform
                  ELSE IF y.isco \/ y.kind = "arg" THEN x.isform
                  ELSE x.isform /\ y.kind = "coef")
             EXCEPT !.hasform = x.hasform \/ y.hasform])
\* ufl.adjoint(A): adjoint.py "Can only take Adjoint of a 2-form"
Adj ==
  \E i \in DOMAIN store :
    LET x == store[i] IN
    /\ x.kind = "bf" /\ Len(x.args) = 2 /\ x.args[1].n = 0 /\ x.args[2].n = 1
    \* formoperators.derivative: "Adjoint derivative is not supported."
    \* adjoint.py: "the adjoint of a coargument c is its first argument", the primal
    \* Argument(V, 0): an identity that is not a BaseForm (kind "arg")
    /\ IF x.isco
       THEN Push(Node("adj", i, 0, "arg", <<Slot(0, x.args[1].sp, TRUE), Slot(0, x.args[1].sp, FALSE)>>,
                      {}, Deg0, FALSE, FALSE, TRUE, FALSE))
       ELSE Push([Node("adj", i, 0, "bf", AdjArgs(x.args), x.may, x.deg, FALSE, x.hasact, x.idl, x.isform)
                  EXCEPT !.hasform = x.hasform])
Zero ==
  \E z \in ZeroSel :
    Push([Node("zero", 0, 0, "bf", ZeroSigs[z], {}, Deg0, TRUE, FALSE, FALSE, FALSE) EXCEPT !.z = z])
\* the node whose object ufl returns for node i: B + 0, 0 + B, B - 0 are B itself
RECURSIVE Orig(_)
Orig(i) ==
  LET nd == store[i] IN
  IF nd.op \in {"add", "sub"} /\ "num" \in {store[nd.a].kind, store[nd.b].kind} /\ ~NumNegates(nd)
  THEN Orig(IF store[nd.a].kind = "num" THEN nd.b ELSE nd.a)
  ELSE i
\* ufl.derivative(A, q [, direction]); dir = 0: a new argument, dir = h: the coefficient h
Der ==
  \E i \in DOMAIN store, q \in DerCoefs, dir \in {0, 2} :
    LET x == store[i]  xo == store[Orig(i)] IN
    /\ x.kind = "bf" /\ x.dif /\ x.deg[q] <= 2
    \* a coefficient direction: derivative(F, f, f2); the Leibniz rule for an Action takes the
    \* Adjoint of d(left), a 2-form only for an argument direction
    /\ dir # 0 => (q = 1 /\ ~x.hasact)
    /\ Push([Node("der", i, 0, "bf",
                  IF dir = 0 THEN Append(x.args, Slot(NextN(x.args), CoefSp(q), CoefDu(q))) ELSE x.args,
                  x.may \cup {q} \cup (IF dir = 0 THEN {} ELSE {dir}),
                  IF dir = 0 THEN [x.deg EXCEPT ![q] = MaxI(0, @ - 1)]
                  ELSE [x.deg EXCEPT ![q] = MaxI(0, @ - 1), ![dir] = @ + 1],
                  \* the derivative of an Action is a sum of Actions whose left operand is an
                  \* Adjoint: a second derivative is refused by design
                  x.dif /\ ~x.hasact, x.hasact,
                  \* D_c c is the Coargument (the identity): apply_derivatives returns the direction
                  xo.op = "leaf" /\ xo.lk = "cof" /\ xo.id = q /\ dir = 0, x.isform)
             EXCEPT !.q = q, !.dir = dir, !.hasform = x.hasform,
                    !.isco = xo.op = "leaf" /\ xo.lk = "cof" /\ xo.id = q /\ dir = 0])

\* w1*x + w2*y + w3*z = FormSum((x, w1), (y, w2), (z, w3)): three different nodes with the same
\* argument slots, pairwise different weights
WSum ==
  /\ SumSel # {}
  /\ ~(SumMode /\ HasSum(store))
  /\ \E i \in DOMAIN store : store[i].kind = "bf" /\
       \E j \in DOMAIN store \ {i} : store[j].kind = "bf" /\ store[j].args = store[i].args /\
         \E k \in DOMAIN store \ {i, j} : store[k].kind = "bf" /\ store[k].args = store[i].args /\
           \E ws \in SumSel :
             LET x == store[i]  y == store[j]  z == store[k]  tr == WeightTriples[ws] IN
             Push([Node("wsum", i, j, "bf", x.args, x.may \cup y.may \cup z.may,
                        DegMax(DegMax(x.deg, y.deg), z.deg), x.dif /\ y.dif /\ z.dif,
                        x.hasact \/ y.hasact \/ z.hasact, x.idl /\ y.idl /\ z.idl,
                        x.isform /\ y.isform /\ z.isform)
                   EXCEPT !.c = k, !.w = tr[1], !.w2 = tr[2], !.w3 = tr[3],
                          !.hasform = x.hasform \/ y.hasform \/ z.hasform])
\* ufl.replace(A, {q: r}) for a coefficient / cofunction q that occurs in A
Repl ==
  \E p \in ReplSel, i \in DOMAIN store :
    LET x == store[i]  q == ReplPairs[p][1]  r == ReplPairs[p][2] IN
    /\ x.kind = "bf" /\ q \in x.may
    /\ Push([Node("repl", i, 0, "bf", x.args, (x.may \ {q}) \cup {r},
                  [x.deg EXCEPT ![r] = @ + x.deg[q], ![q] = 0], x.dif, x.hasact, x.idl, x.isform)
             EXCEPT !.q = q, !.dir = r, !.hasform = x.hasform, !.isco = x.isco])

\* SumMode: Viable (in Push) admits only CompOps before the sum, only PostOps after it, and counts
\* the operations after it; WSum is taken once.  (A plain disjunction: TLC -simulate draws one of
\* the disjuncts, then one of its successors.)
Next == AddSub("add") \/ AddSub("sub") \/ AddSubNum("add") \/ AddSubNum("sub") \/ Neg \/ Scale \/ Act \/ Adj \/ Zero \/ Der \/ WSum \/ Repl
Spec == Init /\ [][Next]_vars

-----------------------------------------------------------------------------
(* INVARIANTS of every run: arity bookkeeping is consistent with the tensor rank *)
RankOK ==
  LET n == Len(store) IN
  /\ Len(tv) = n /\ DOMAIN tv[n] = Idx(store[n].args)
  /\ store[n].kind = "bf" => StrictInc(store[n].args)
  /\ store[n].kind = "coef" => Len(store[n].args) = 1
  /\ Len(IdxSeq(store[n].args)) = Cardinality(Idx(store[n].args))

(* The derivative of a weighted sum, component by component (the distribution ufl performs in
   formoperators.derivative; expand_derivatives then eliminates the components that vanish):
   node i differentiates a "wsum" node; DerOfComp(i, k) is the same derivative applied to the
   component k alone. *)
SumDer(i) == store[i].op = "der" /\ store[store[i].a].op = "wsum"
DerOfComp(i, k) == T(Append(store, [store[i] EXCEPT !.a = k]), Len(store) + 1, EnvBase)
TDefined(t) == \A s \in DOMAIN t : QDef(t[s])
\* which of the three component derivatives are zero (<<>> for any other node)
Vanish(i) ==
  IF SumDer(i)
  THEN LET sm == store[store[i].a]
           cs == <<sm.a, sm.b, sm.c>>
       IN [m \in 1..3 |-> IF DerOfComp(i, cs[m]) = TZero(store[i].args) THEN 1 ELSE 0]
  ELSE <<>>
\* linearity of the difference quotient: D(w1 A + w2 B + w3 C) = w1 DA + w2 DB + w3 DC
DerOfSumLinear ==
  LET n == Len(store) IN
  SumDer(n) =>
    LET sm == store[store[n].a]
        d1 == DerOfComp(n, sm.a)  d2 == DerOfComp(n, sm.b)  d3 == DerOfComp(n, sm.c)
        rhs == TAdd(TAdd(TScale(SumWeightSeq[sm.w], d1), TScale(SumWeightSeq[sm.w2], d2)),
                    TScale(SumWeightSeq[sm.w3], d3))
    IN (TDefined(tv[n]) /\ TDefined(rhs)) => tv[n] = rhs

(* ALGEBRAIC LAWS of the model (run "laws"): every instance that involves the newest node.
   Val(i) is the value [args, t] of node i of the store. *)
BF(i) == store[i].kind = "bf"
CanAct(x, y) == x.args # <<>> /\ y.args # <<>> /\ Pairs(Last(x.args), y.args[1])
VAct(x, y) == [args |-> ActArgs(x.args, y.args), t |-> TAct(x.args, x.t, y.args, y.t)]
VAdd(x, y) == [args |-> x.args, t |-> TAdd(x.t, y.t)]
VScale(w, x) == [args |-> x.args, t |-> TScale(w, x.t)]
VZero(args) == [args |-> args, t |-> TZero(args)]
VAdj(x) == [args |-> AdjArgs(x.args), t |-> TAdj(x.t)]
Two(x) == Len(x.args) = 2 /\ x.args[1].n = 0 /\ x.args[2].n = 1

Val(i) == [args |-> store[i].args, t |-> tv[i]]
\* instances for given nodes i, j, k
AdjointInvolution(i) ==
  (BF(i) /\ Two(Val(i))) => VAdj(VAdj(Val(i))) = Val(i)
ActionDistributes(i, j, k) ==
  (BF(i) /\ BF(j) /\ Val(i).args = Val(j).args) =>
    LET x == Val(i)  y == Val(j)  z == Val(k) IN
    /\ CanAct(x, z) => VAct(VAdd(x, y), z) = VAdd(VAct(x, z), VAct(y, z))
    /\ (BF(k) /\ CanAct(z, x)) => VAct(z, VAdd(x, y)) = VAdd(VAct(z, x), VAct(z, y))
ActionCommutesWithScaling(i, k) ==
  (BF(i) /\ CanAct(Val(i), Val(k))) =>
    \A w \in DOMAIN WeightSeq :
      LET x == Val(i)  z == Val(k)  q == WeightSeq[w] IN
      /\ VAct(VScale(q, x), z) = VScale(q, VAct(x, z))
      /\ VAct(x, VScale(q, z)) = VScale(q, VAct(x, z))
ActionWithZeroIsZero(i, k) ==
  (BF(i) /\ CanAct(Val(i), Val(k))) =>
    LET x == Val(i)  z == Val(k) IN
    /\ VAct(VZero(x.args), z) = VZero(ActArgs(x.args, z.args))
    /\ VAct(x, VZero(z.args)) = VZero(ActArgs(x.args, z.args))
AddAssociativeCommutative(i, j, k) ==
  (BF(i) /\ BF(j) /\ BF(k) /\ Val(i).args = Val(j).args /\ Val(j).args = Val(k).args) =>
    /\ VAdd(VAdd(Val(i), Val(j)), Val(k)) = VAdd(Val(i), VAdd(Val(j), Val(k)))
    /\ VAdd(Val(i), Val(j)) = VAdd(Val(j), Val(i))
\* contraction is associative, and the adjoint reverses it
ActionAssociative(i, j, k) ==
  (BF(i) /\ BF(j) /\ Len(Val(j).args) >= 2 /\ CanAct(Val(i), Val(j)) /\ CanAct(Val(j), Val(k))) =>
    VAct(VAct(Val(i), Val(j)), Val(k)) = VAct(Val(i), VAct(Val(j), Val(k)))
AdjointReversesAction(i, j) ==
  (BF(i) /\ BF(j) /\ Two(Val(i)) /\ Two(Val(j)) /\ CanAct(Val(i), Val(j))) =>
    VAdj(VAct(Val(i), Val(j))) = VAct(VAdj(Val(j)), VAdj(Val(i)))
Laws ==
  LET n == Len(store)
      L3(i, j, k) == /\ ActionDistributes(i, j, k)
                     /\ AddAssociativeCommutative(i, j, k)
                     /\ ActionAssociative(i, j, k)
      L2(i, k) == /\ ActionCommutesWithScaling(i, k)
                  /\ ActionWithZeroIsZero(i, k)
                  /\ AdjointReversesAction(i, k)
  IN /\ AdjointInvolution(n)
     /\ \A i \in DOMAIN store : L2(i, n) /\ L2(n, i)
     /\ \A i, j \in DOMAIN store : L3(n, i, j) /\ L3(i, n, j) /\ L3(i, j, n)
\* the difference quotient reproduces the derivatives known in closed form:
\* D_f Lf_V = a_VV,  D_f J_q [h] = h.A1 f + f.A1 h,  D_c c = Coargument (the identity)
DerivativeSanity ==
  LET dn(l, q, ar) == <<LeafNode(l),
                        [Node("der", 1, 0, "bf", ar, {}, Deg0, TRUE, FALSE, FALSE, FALSE) EXCEPT !.q = q]>>
      f == EnvBase[1]
  IN NOps(store) > 0 \/   \* (does not depend on the state: evaluated in the initial state only)
     /\ T(dn(Leaf("form", 7), 1, FormArgs(1)), 2, EnvBase) = FormT(1, EnvBase)
     /\ T(dn(Leaf("form", 10), 1, <<Slot(0, SV, FALSE)>>), 2, EnvBase)
          = [s \in Idx(<<Slot(0, SV, FALSE)>>) |->
               QAdd(MatVec(A1, f)[s[1]], Dot(f, [i \in 1..2 |-> A1[i][s[1]]]))]
     /\ T(dn(Leaf("cof", 4), 4, LeafArgs(Leaf("coarg", 1))), 2, EnvBase) = LeafT(Leaf("coarg", 1), EnvBase)

-----------------------------------------------------------------------------
(* The table handed to the conformance check: one JSON line per live program.
   [ops, nodes]
     ops    = [[opcode, a, b, w, q, dir, z, c, w2, w3], ...]   operands a, b, c: index into the
              store (leaves first); wsum: weights w, w2, w3 index SumWeightSeq; repl: q -> dir
     nodes  = [[kind, args, may, must, undefined, tensor, vanish], ...]   one prediction per operation
              vanish = for the derivative of a three-component sum: [z1, z2, z3], zk = 1 when the
              derivative of component k is zero; [] for any other node
     opcode = 1 add 2 sub 3 neg 4 scale 5 act 6 adj 7 zero 8 der 9 wsum 10 repl
     args   = [[n, sp, du], ...]      tensor = [[num, den], ...] in row-major order *)
EncOp(nd) == <<OpCode(nd.op), nd.a, nd.b, nd.w, nd.q, nd.dir, nd.z, nd.c, nd.w2, nd.w3>>
EncArgs(ar) == [i \in DOMAIN ar |-> <<ar[i].n, ar[i].sp, IF ar[i].du THEN 1 ELSE 0>>]
\* the prediction for node i: [kind, args, may, must, undefined, tensor, vanish]
\*   must = the coefficients on which the tensor demonstrably depends (it changes when the value
\*   of the coefficient is perturbed); may = the coefficients occurring in the construction
EncNode(i) ==
  LET nd  == store[i]
      t0  == tv[i]
      ix  == IdxSeq(nd.args)
      und == (\E s \in DOMAIN t0 : ~QDef(t0[s])) \/ (\E q \in nd.may : \E s \in DOMAIN t0 : ~QDef(tp[i][q][s]))
  IN <<nd.kind, EncArgs(nd.args), SetToSortSeq(nd.may, <),
       SetToSortSeq({q \in nd.may : tp[i][q] # t0}, <), und, [j \in DOMAIN ix |-> t0[ix[j]]], Vanish(i)>>
DumpRec == <<[k \in 1..NOps(store) |-> EncOp(store[NL + k])], [k \in 1..NOps(store) |-> EncNode(NL + k)]>>
Dump == (DumpOn /\ NOps(store) >= 1 /\ Cardinality(Roots(store)) = 1) => PrintT(ToJson(DumpRec))

\* the declared leaves and their values, printed once (the harness builds the real objects and
\* the environment of its structural assembler from this table)
LeafTable ==
  [leaves |-> [i \in DOMAIN LeafSeq |-> <<LeafSeq[i].i, LeafSeq[i].l.k, LeafSeq[i].l.id>>],
   env    |-> [q \in Coefs |-> EnvBase[q]],
   mats   |-> [m \in 1..6 |-> MatVal(m)],
   consts |-> [A1 |-> A1, A2 |-> A2, A3 |-> A3, K1 |-> K1, B1 |-> B1, B2 |-> B2],
   weights |-> WeightSeq,
   sumweights |-> SumWeightSeq,
   zeros  |-> [z \in DOMAIN ZeroSigs |-> EncArgs(ZeroSigs[z])]]
ASSUME PrintT(ToJson(LeafTable))
=============================================================================
