------------------------------ MODULE Pipeline ------------------------------
(***************************************************************************)
(* C01 (protocol part).  compute_form_data as a state machine.             *)
(*                                                                         *)
(* State: the option record, the program counter (index into the stage     *)
(* list of ufl/algorithms/compute_form_data.py + formdata.py, in source    *)
(* order), and `feat`, an abstraction of the form: the set of KINDS of     *)
(* nodes that are present in the integrands:                               *)
(*   compound  compound tensor algebra / compound differential operators   *)
(*   cplx      Conj / Real / Imag nodes                                    *)
(*   deriv     a derivative that does not act on a terminal (incl.         *)
(*             CoefficientDerivative, VariableDerivative)                  *)
(*   gradarg   Grad acting on a (physical) form argument                   *)
(*   physarg   a form argument outside ReferenceValue                      *)
(*   refvalue  ReferenceValue of a form argument                           *)
(*   geomhi    a geometric quantity that geometry lowering rewrites        *)
(*             (other than J, K, detJ)                                     *)
(*   jkdet     Jacobian, JacobianInverse or JacobianDeterminant terminals  *)
(* and `scaled`, how many times the integral scaling factor was applied.   *)
(*                                                                         *)
(* One action per pass, enabled exactly when the code runs it; its effect  *)
(* is MustRemove (kinds the pass eliminates) and MayIntroduce (kinds it    *)
(* may create; chosen nondeterministically).  The invariants say what the  *)
(* options promise about the result.  TLC checks them for ALL option       *)
(* vectors and ALL initial feature sets.  Recorded executions of the real  *)
(* pipeline (hook H1, ufl/_verif.py) are validated against the same        *)
(* actions by TracePipeline.tla.                                           *)
(***************************************************************************)
EXTENDS Naturals, Sequences, FiniteSets, TLC

Kinds == {"compound", "cplx", "deriv", "gradarg", "physarg", "refvalue", "geomhi", "jkdet"}

\* options (the keyword arguments of compute_form_data that change the integrands)
OptNames == {"pullbacks", "scaling", "lowering", "preserve_jk", "cancelj", "complex", "remove_ct",
             "estimate", "restrictions", "replace", "split"}
Options == [OptNames -> BOOLEAN]

VARIABLES opts, pc, feat, scaled
vars == <<opts, pc, feat, scaled>>

\* Stage list in source order: <<name, enabling condition>>
Stage(k, o) ==
  CASE k = 1  -> <<"comparison_check", o["complex"]>>
    [] k = 2  -> <<"algebra_lowering", TRUE>>
    [] k = 3  -> <<"remove_complex_nodes#1", ~o["complex"]>>
    [] k = 4  -> <<"apply_derivatives#1", TRUE>>
    [] k = 5  -> <<"group_form_integrals", TRUE>>
    [] k = 6  -> <<"attach_estimated_degrees", o["estimate"]>>
    [] k = 7  -> <<"function_pullbacks", o["pullbacks"]>>
    [] k = 8  -> <<"integral_scaling", o["scaling"]>>
    [] k = 9  -> <<"geometry_lowering#1", o["lowering"]>>
    [] k = 10 -> <<"apply_derivatives#2", o["pullbacks"] \/ o["lowering"]>>
    [] k = 11 -> <<"geometry_lowering#2", o["lowering"]>>
    [] k = 12 -> <<"apply_derivatives#3", o["lowering"]>>
    [] k = 13 -> <<"remove_component_tensors#cj", o["lowering"] /\ o["cancelj"]>>
    [] k = 14 -> <<"cancel_jacobian_products", o["lowering"] /\ o["cancelj"]>>
    [] k = 15 -> <<"geometry_lowering#3", o["lowering"] /\ o["cancelj"]>>
    [] k = 16 -> <<"apply_derivatives#4", o["lowering"] /\ o["cancelj"]>>
    [] k = 17 -> <<"coordinate_derivatives", TRUE>>
    [] k = 18 -> <<"remove_complex_nodes#2", ~o["complex"]>>
    [] k = 19 -> <<"remove_component_tensors", o["remove_ct"]>>
    [] k = 20 -> <<"build_integral_data", TRUE>>
    [] k = 21 -> <<"replace_functions", o["replace"]>>
    [] k = 22 -> <<"coefficient_split", o["split"]>>
    [] k = 23 -> <<"apply_restrictions", o["restrictions"]>>
    [] k = 24 -> <<"checks", TRUE>>
NStages == 24

\* which J/K/detJ terminals a geometry lowering call keeps: the first two calls preserve them
\* when cancellation is requested, every call when the user asked to preserve them
Keeps(name, o) == o["preserve_jk"] \/ (o["cancelj"] /\ name \in {"geometry_lowering#1", "geometry_lowering#2"})

MustRemove(name, o) ==
  CASE name = "algebra_lowering"        -> {"compound"}
    [] name \in {"remove_complex_nodes#1", "remove_complex_nodes#2"} -> {"cplx"}
    [] name \in {"apply_derivatives#1", "apply_derivatives#2", "apply_derivatives#3", "apply_derivatives#4"} -> {"deriv"}
    [] name = "function_pullbacks"      -> {"physarg", "gradarg"}
    [] name \in {"geometry_lowering#1", "geometry_lowering#2", "geometry_lowering#3"} ->
         IF Keeps(name, o) THEN {"geomhi"} ELSE {"geomhi", "jkdet"}
    [] OTHER -> {}

MayIntroduce(name, o, f) ==
  CASE name = "comparison_check"        -> {"cplx"}                       \* wraps operands in Real
    \* inner/outer -> Conj; div, curl, nabla_grad ... -> Grad of their operand (an argument, or an
    \* expression: then a derivative that still has to be expanded)
    [] name = "algebra_lowering"        -> {"cplx"} \cup (IF "compound" \in f THEN {"gradarg", "deriv"} ELSE {})
    \* expanding a derivative may leave Grad on arguments, differentiate geometry, and turn the Grad
    \* of a reference value into K . ReferenceGrad (introducing the Jacobian inverse); with no
    \* unexpanded derivative present the pass changes nothing
    [] name = "apply_derivatives#1"     -> IF "deriv" \in f THEN {"gradarg", "geomhi", "jkdet"} ELSE {}
    [] name \in {"apply_derivatives#2", "apply_derivatives#3", "apply_derivatives#4"} ->
         IF "deriv" \in f THEN {"jkdet", "geomhi"} ELSE {}
    [] name = "function_pullbacks"      -> (IF "physarg" \in f \/ "gradarg" \in f THEN {"refvalue", "jkdet"} ELSE {})
                                           \cup (IF "gradarg" \in f THEN {"deriv"} ELSE {})
    [] name = "integral_scaling"        -> {"jkdet", "geomhi"}            \* detJ, facet Jacobian determinants
    [] name \in {"geometry_lowering#1", "geometry_lowering#2", "geometry_lowering#3"} ->
         \* K, detJ from higher-level quantities; the lowered formulas use inner products (Conj)
         IF Keeps(name, o) THEN {"jkdet", "cplx"} ELSE {"cplx"}
    [] OTHER -> {}

Init == /\ opts \in Options
        /\ opts["cancelj"] => opts["lowering"]      \* cancellation happens inside the lowering block only
        /\ opts["split"] => opts["replace"]         \* FormData: "Must call with do_replace_functions=True"
        /\ pc = 1
        /\ feat \in SUBSET (Kinds \ {"refvalue"})   \* the user's form: no reference values yet
        /\ scaled = 0

Step ==
  /\ pc <= NStages
  /\ LET st == Stage(pc, opts) IN
     IF st[2]
     THEN /\ \E new \in SUBSET MayIntroduce(st[1], opts, feat) :
               feat' = (feat \ MustRemove(st[1], opts)) \cup new
          /\ scaled' = IF st[1] = "integral_scaling" THEN scaled + 1 ELSE scaled
     ELSE UNCHANGED <<feat, scaled>>
  /\ pc' = pc + 1
  /\ UNCHANGED opts
Next == Step
Spec == Init /\ [][Next]_vars

Done == pc = NStages + 1

\* ---- what the options promise about the preprocessed integrands ----
NoCompoundLeft   == Done => "compound" \notin feat
NoDerivLeft      == Done => "deriv" \notin feat
RealModeNoCplx   == Done /\ ~opts["complex"] => "cplx" \notin feat
PulledBack       == Done /\ opts["pullbacks"] => "physarg" \notin feat /\ "gradarg" \notin feat
GeometryLowered  == Done /\ opts["lowering"] => "geomhi" \notin feat
JKLowered        == Done /\ opts["lowering"] /\ ~opts["preserve_jk"] => "jkdet" \notin feat
ScaledOnce       == Done => scaled = (IF opts["scaling"] THEN 1 ELSE 0)
NeverScaledTwice == scaled <= 1
TypeOK           == pc \in 1..(NStages + 1) /\ feat \subseteq Kinds /\ scaled \in 0..2
=============================================================================
