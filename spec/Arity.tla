-------------------------------- MODULE Arity --------------------------------
(***************************************************************************)
(* C14.  The arity check accepts exactly multilinear integrands.           *)
(*                                                                         *)
(* (a) TERMS.  The state `store` is the construction history of an         *)
(*     integrand in the language the checker sees, i.e. AFTER              *)
(*     apply_algebra_lowering (+ remove_complex_nodes in real mode,        *)
(*     apply_derivatives): one node record per constructor call            *)
(*       terminals: argument number n (Terminals[k].num = n >= 0; possibly *)
(*         under grad / reference_grad / reference_value: Terminals[k].wrap;*)
(*         Terminals[k].part >= 0: one part of the argument of a block      *)
(*         system - the test / trial function is then the tuple of all      *)
(*         parts with that number and varies as a whole in the experiment), *)
(*         coefficient, geometric quantity, literal, zero                  *)
(*       add = Sum, mul = Product (a repeated free index is summed:        *)
(*       IndexSum(Product)), div = Division, pow = Power, abs, conj, real, *)
(*       imag, sqrt / sign (math functions), index = Indexed, isum =       *)
(*       IndexSum, as_tensor = ComponentTensor, list = ListTensor (2-3     *)
(*       components), lt .. ne (conditions), cond = Conditional,           *)
(*       restrict = PositiveRestricted (of a terminal), variable           *)
(*     plus the user-level operators sub, neg, inner, dot, outer, whose     *)
(*     lowered form is spelled out where their arity is computed.          *)
(*     Guards are the language's well-formedness rules and keep terms in   *)
(*     the normal form ufl's constructors produce (x+0, 0*x, 1*x, literal  *)
(*     op literal ... are other, shorter terms).                           *)
(* (b) THE CHECKER as coded: ArityRules.tla, applied node by node; every   *)
(*     node record carries its arity under both list-tensor rules (arc as  *)
(*     coded, ari intended); the constant ListTensorRule selects the one   *)
(*     the invariants speak about.                                        *)
(* (c) THE MEANING.  Every node carries its exact value (Gaussian          *)
(*     rationals, CQ.tla; tables over free-index bindings and components)  *)
(*     in NEnv environments laid out as an experiment: NGroups groups; in a *)
(*     group all coefficients are fixed and argument n takes the values    *)
(*     v (base), 0, 2v, -v, w, v+w and (complex mode) iv.                   *)
(*     Linear in argument n  <=>  t(0)=0, t(2v)=2t(v), t(-v)=-t(v),         *)
(*     t(v+w)=t(v)+t(w), and t(iv) = i t(v)  (-i t(v) for the test function,*)
(*     number 0: a sesquilinear form is antilinear in it) in every group.  *)
(*     The classes are computed once, when the node is built (field sem).  *)
(* Invariants over every reachable term:                                   *)
(*     Sound:            Accepts(t) /\ all values defined => Multilinear(t) *)
(*     RejectsNonlinear: NonlinearOrAffine(t) => ~Accepts(t)               *)
(* With ListTensorRule = "as_coded" Sound FAILS (a list tensor with a      *)
(* non-zero constant component is accepted but affine); with "intended"    *)
(* both hold.                                                              *)
(* The value semantics follows UFLBuild.tla (the user-level language, C05) *)
(* restricted to the lowered node types; it is bound to ufl separately:    *)
(* the harness compares the semantic classes with those of the real        *)
(* lowered objects.                                                        *)
(***************************************************************************)
EXTENDS Integers, Sequences, FiniteSets, FiniteSetsExt, SequencesExt, TLC, Json, Randomization, CQ, ArityRules

CONSTANTS
  Terminals,       \* sequence of [nm, sh, num (argument number or -1), part (of the Argument, -1: None),
                   \*              wrap ("none","grad","rval","rgrad")]
  TermVal,         \* TermVal[e][k]: value table of Terminals[k] in environment e
  NEnv,            \* number of environments
  Lits,            \* sequence of [nm, v]: literal scalars
  Zeros,           \* sequence of shapes: zero tensors (instances of Zero)
  Slices,          \* sequence of [ops, ids, idx, maxnodes, maxrank, fargs, canon]: the bounded instances
                   \* explored in this run: enabled operations, usable initial nodes, usable index names
                   \* (integers >= 10), bound on constructed nodes, bound on the rank, "all the
                   \* form's arguments" (set of <<number, part>>) of a form made of the slice's terms,
                   \* and whether a + b, a * b are only built with a <= b (Sum and Product sort their
                   \* operands: b + a, b * a are the same objects)
  MaxDim,          \* maximal axis dimension
  ComplexMode,     \* BOOLEAN: compute_form_data(..., complex_mode=...)
  ListTensorRule,  \* "as_coded" | "intended"
  NGroups,         \* number of independent environment groups (>= 2)
  NArgs            \* the form's arguments are numbered 0..NArgs-1 (2: bilinear forms, 3: trilinear)

VARIABLES store,   \* the construction history
          sl       \* the slice this behaviour explores (constant along a behaviour)
vars == <<store, sl>>
OpSet == Slices[sl].ops
MaxNodes == Slices[sl].maxnodes
MaxRank == Slices[sl].maxrank

Envs == 1..NEnv
AllArgs == 0..(NArgs - 1)

-----------------------------------------------------------------------------
(* Environment layout *)
K == IF ComplexMode THEN 6 ELSE 5          \* variations per argument
GS == 1 + K * NArgs                        \* environments per group
Env(g, off) == g * GS + off + 1            \* g in 0..NGroups-1
Base(g) == Env(g, 0)
Var(g, n, t) == Env(g, 1 + K * n + t)      \* t: 0 zero, 1 two, 2 neg, 3 w, 4 v+w, 5 iv
Groups == 0..(NGroups - 1)
CImag == <<Q0, Q1>>

\* The environments really are that experiment (checked once, TermVal is a constant).
EnvDesign ==
  /\ NEnv = NGroups * GS
  /\ \A g \in Groups : \A k \in 1..Len(Terminals) :
       \A t \in DOMAIN TermVal[Base(g)][k] :
         LET b == TermVal[Base(g)][k][t]
             val(e) == TermVal[e][k][t] IN
         \A n \in AllArgs :
           IF Terminals[k].num # n
           THEN \A j \in 0..(K - 1) : val(Var(g, n, j)) = b
           ELSE /\ val(Var(g, n, 0)) = C0
                /\ val(Var(g, n, 1)) = CMul(CI(2), b)
                /\ val(Var(g, n, 2)) = CNeg(b)
                /\ val(Var(g, n, 3)) # b
                /\ val(Var(g, n, 4)) = CAdd(b, val(Var(g, n, 3)))
                /\ ComplexMode => val(Var(g, n, 5)) = CMul(CImag, b)
ASSUME EnvDesign

-----------------------------------------------------------------------------
(* (c) Meaning: linearity of a scalar in argument n, decided on its exact values val[e][<<>>] *)

Eq3(p, q) == IF ~CDef(p) \/ ~CDef(q) THEN "undef" ELSE IF p = q THEN "ok" ELSE "fail"
\* i z, and -i z for the test function (number 0): a sesquilinear form is antilinear in it
ITimes(n, z) == IF n = 0 THEN CK(<<z[2], QNeg(z[1])>>) ELSE CK(<<QNeg(z[2]), z[1]>>)

\* the homogeneity / additivity tests in argument n, group g:
\*   t(0) = 0, t(2v) = 2 t(v), t(-v) = -t(v), t(v+w) = t(v) + t(w), t(iv) = (-)i t(v)
LinTests(val, n, g) ==
  LET V(e) == val[e][<< >>]
      b == V(Base(g)) IN
  { Eq3(V(Var(g, n, 0)), C0), Eq3(V(Var(g, n, 1)), CAdd(b, b)), Eq3(V(Var(g, n, 2)), CNeg(b)),
    Eq3(V(Var(g, n, 4)), CAdd(b, V(Var(g, n, 3)))) }
  \cup (IF ComplexMode THEN { Eq3(V(Var(g, n, 5)), ITimes(n, b)) } ELSE {})
\* the same tests for d = t - t(0) (affine = constant + linear), written without subtractions:
\*   d(2v) = 2 d(v)  <=>  t(2v) + z = t(v) + t(v)          with z = t(0)
\*   d(-v) = -d(v)   <=>  t(-v) + t(v) = z + z
\*   d(v+w) = d(v) + d(w)  <=>  t(v+w) + z = t(v) + t(w)
\*   d(iv) = j d(v)  <=>  t(iv) + j z = j t(v) + z          with j = (-)i
AffTests(val, n, g) ==
  LET V(e) == val[e][<< >>]
      z == V(Var(g, n, 0))
      b == V(Base(g)) IN
  { Eq3(CAdd(V(Var(g, n, 1)), z), CAdd(b, b)), Eq3(CAdd(V(Var(g, n, 2)), b), CAdd(z, z)),
    Eq3(CAdd(V(Var(g, n, 4)), z), CAdd(b, V(Var(g, n, 3)))) }
  \cup (IF ComplexMode THEN { Eq3(CAdd(V(Var(g, n, 5)), ITimes(n, z)), CAdd(ITimes(n, b), z)) } ELSE {})

\* "yes": linear (antilinear for the test function in complex mode) on every sample;
\* "no": some identity definitely fails; "unknown": an involved value is undefined.
\* kind of a "no": "affine" (non-zero constant part, linear rest on every sample), "nonlinear"
\* (an identity of the affine tests definitely fails), "unknown" (undefined values in them).
SemClass(val, n) ==
  LET R == UNION {LinTests(val, n, g) : g \in Groups}
      cls == IF "fail" \in R THEN "no" ELSE IF "undef" \in R THEN "unknown" ELSE "yes" IN
  [cls |-> cls,
   kind |-> IF cls # "no" THEN "-"
            ELSE LET A == UNION {AffTests(val, n, g) : g \in Groups} IN
                 IF "fail" \in A THEN "nonlinear" ELSE IF "undef" \in A THEN "unknown" ELSE "affine"]
SemOf(val) == [n \in 1..NArgs |-> SemClass(val, n - 1)]

-----------------------------------------------------------------------------
(* Tuples, bindings, tables (as in UFLBuild.tla) *)
Tup(dims) == {t \in [1..Len(dims) -> 0..(MaxDim - 1)] : \A k \in 1..Len(dims) : t[k] < dims[k]}
FiDims(fi) == [k \in 1..Len(fi) |-> fi[k][2]]
FiIdx(fi) == {fi[k][1] : k \in 1..Len(fi)}
FiPos(fi, i) == CHOOSE k \in 1..Len(fi) : fi[k][1] = i
FiDim(fi, i) == fi[FiPos(fi, i)][2]
SortFi(S) == SetToSortSeq(S, LAMBDA x, y : x[1] < y[1])
FiSet(fi) == {fi[k] : k \in 1..Len(fi)}
Binds(S) == LET I == {p[1] : p \in S} IN
            {b \in [I -> 0..(MaxDim - 1)] : \A p \in S : b[p[1]] < p[2]}
At(n, e, b, c) == n.val[e][[k \in 1..Len(n.fi) |-> b[n.fi[k][1]]] \o c]
MkTab(fi, sh, F(_, _)) ==
  IF fi = << >> /\ sh = << >> THEN (<< >> :> F(<< >>, << >>))     \* a true scalar: one entry
  ELSE [t \in Tup(FiDims(fi) \o sh) |->
          F([i \in FiIdx(fi) |-> t[FiPos(fi, i)]], SubSeq(t, Len(fi) + 1, Len(t)))]
CSumSet(S, F(_)) == FoldSet(LAMBDA x, acc : CAdd(F(x), acc), C0, S)

BoolOps == {"lt", "gt", "le", "ge", "eq", "ne"}
Rank(n) == Len(n.sh)
IsScalar(n) == n.sh = << >>
TrueScalar(n) == n.sh = << >> /\ n.fi = << >>
IsBool(n) == n.op \in BoolOps
IsVal(n) == ~IsBool(n)

NoSem == << >>
Node(op, args, mi, sh, fi, val, arc, ari) ==
  [op |-> op, args |-> args, mi |-> mi, sh |-> sh, fi |-> fi, val |-> val, arc |-> arc, ari |-> ari,
   sem |-> IF sh = << >> /\ fi = << >> /\ op \notin BoolOps THEN SemOf(val) ELSE NoSem]
\* a node whose value is given pointwise in every environment; A(rule) is its arity
Mk(op, args, mi, sh, fi, F(_, _, _), A(_)) ==
  Node(op, args, mi, sh, fi, [e \in Envs |-> MkTab(fi, sh, LAMBDA b, c : F(e, b, c))],
       A("as_coded"), A("intended"))

-----------------------------------------------------------------------------
(* Initial store: terminals, literals, zeros, with the arity of their handlers *)
TermArity0(k) ==
  IF Terminals[k].num < 0 THEN H_terminal                       \* coefficient, geometry
  ELSE IF Terminals[k].wrap = "none" THEN H_argument(Terminals[k].num, Terminals[k].part)
  ELSE H_linear_operator(H_argument(Terminals[k].num, Terminals[k].part))   \* grad(v), reference_value(v), ...
TermNode(k) == Node("term", << >>, << >>, Terminals[k].sh, << >>, [e \in Envs |-> TermVal[e][k]],
                    TermArity0(k), TermArity0(k))
LitNode(k) == Node("lit", << >>, << >>, << >>, << >>, [e \in Envs |-> (<< >> :> Lits[k].v)],
                   H_terminal, H_terminal)
ZeroNode(k) == Node("zero", << >>, Zeros[k], Zeros[k], << >>, [e \in Envs |-> [t \in Tup(Zeros[k]) |-> C0]],
                    H_terminal, H_terminal)
InitStore == [k \in 1..Len(Terminals) |-> TermNode(k)]
             \o [k \in 1..Len(Lits) |-> LitNode(k)]
             \o [k \in 1..Len(Zeros) |-> ZeroNode(k)]
NInit == Len(Terminals) + Len(Lits) + Len(Zeros)
Init == store = InitStore /\ sl \in 1..Len(Slices)

\* usable operands: the slice's initial nodes and everything constructed
Ids == Slices[sl].ids \cup ((NInit + 1)..Len(store))
Room == Len(store) < NInit + MaxNodes

\* every constructed node is an ancestor of the last one
RECURSIVE Anc(_, _, _)
Anc(st, n, acc) == IF n \in acc THEN acc
                   ELSE LET as == st[n].args
                            RECURSIVE Go(_, _)
                            Go(k, s) == IF k > Len(as) THEN s ELSE Go(k + 1, Anc(st, as[k], s))
                        IN Go(1, acc \cup {n})
LiveIn(st) == Len(st) > NInit /\ (NInit + 1)..Len(st) \subseteq Anc(st, Len(st), {})
\* the last step of a program must use everything built before (other final states only repeat
\* shorter programs); decided from the operands, before the new node is computed
LastStepOk(args) ==
  Len(store) + 1 = NInit + MaxNodes =>
    (NInit + 1)..Len(store) \subseteq UNION {Anc(store, args[k], {}) : k \in 1..Len(args)}
Push(args, n) == /\ LastStepOk(args)
                 /\ Len(n.sh) <= MaxRank
                 /\ store' = Append(store, n)

-----------------------------------------------------------------------------
(* (b) The checker: helpers *)
Ar(a, r) == IF r = "as_coded" THEN store[a].arc ELSE store[a].ari
IsZ(n) == store[n].op = "zero"           \* the real object is an instance of Zero
IsL(n) == store[n].op = "lit"
IsOne(n) == IsL(n) /\ store[n].val[1][<< >>] = C1
\* operands ufl's constructors would not simplify away
Gen(a) == ~IsZ(a)
Gen1(a) == ~IsZ(a) /\ ~IsL(a)
Gen2(a, b) == ~IsZ(a) /\ ~IsZ(b) /\ ~(IsL(a) /\ IsL(b))
MI == H_terminal                          \* MultiIndex / Label operands are terminals
\* what the checker sees of conj / real in REAL mode: nothing, remove_complex_nodes has erased
\* the node (preprocess_form); in complex mode conj has its handler, real / imag have none
SeenConj(A) == IF ComplexMode THEN H_conj(A) ELSE A
SeenReal(A) == IF ComplexMode THEN H_nonlinear_operator(<<A>>) ELSE A

-----------------------------------------------------------------------------
(* Constructors: value (UFLBuild.tla) and arity (ArityRules.tla) *)

AddOk(x, y) == IsVal(x) /\ IsVal(y) /\ x.sh = y.sh /\ x.fi = y.fi
DoAdd(a, b) == LET x == store[a]  y == store[b] IN
  /\ AddOk(x, y)
  /\ Push(<<a, b>>, Mk("add", <<a, b>>, << >>, x.sh, x.fi, LAMBDA e, bd, c : CAdd(At(x, e, bd, c), At(y, e, bd, c)),
             LAMBDA r : H_sum(Ar(a, r), Ar(b, r))))
\* a - b  ==lowering==>  Sum(a, Product(-1, b))
DoSub(a, b) == LET x == store[a]  y == store[b] IN
  /\ AddOk(x, y)
  /\ Push(<<a, b>>, Mk("sub", <<a, b>>, << >>, x.sh, x.fi, LAMBDA e, bd, c : CSub(At(x, e, bd, c), At(y, e, bd, c)),
             LAMBDA r : H_sum(Ar(a, r), H_product(H_terminal, Ar(b, r)))))
\* -a  ==lowering==>  Product(-1, a)
DoNeg(a) == LET x == store[a] IN
  /\ IsVal(x) /\ IsScalar(x)
  /\ Push(<<a>>, Mk("neg", <<a>>, << >>, x.sh, x.fi, LAMBDA e, bd, c : CNeg(At(x, e, bd, c)),
             LAMBDA r : H_product(H_terminal, Ar(a, r))))

\* a * b for scalars; an index free in both is summed:  IndexSum(Product(a, b), i)
MulRep(x, y) == FiIdx(x.fi) \cap FiIdx(y.fi)
DoMul(a, b) == LET x == store[a]  y == store[b]
                   R == {p \in FiSet(x.fi) : p[1] \in MulRep(x, y)} IN
  /\ IsVal(x) /\ IsVal(y) /\ IsScalar(x) /\ IsScalar(y)
  /\ \A i \in MulRep(x, y) : FiDim(x.fi, i) = FiDim(y.fi, i)
  /\ Push(<<a, b>>, Mk("mul", <<a, b>>, << >>, << >>,
             SortFi({p \in FiSet(x.fi) \cup FiSet(y.fi) : p[1] \notin MulRep(x, y)}),
             LAMBDA e, bd, c : CSumSet(Binds(R), LAMBDA r : CMul(At(x, e, bd @@ r, << >>), At(y, e, bd @@ r, << >>))),
             LAMBDA r : IF R = {} THEN H_product(Ar(a, r), Ar(b, r))
                        ELSE H_linear_indexed_type(H_product(Ar(a, r), Ar(b, r)), MI)))

DoDiv(a, b) == LET x == store[a]  y == store[b] IN
  /\ IsVal(x) /\ IsVal(y) /\ IsScalar(x) /\ TrueScalar(y)
  /\ Push(<<a, b>>, Mk("div", <<a, b>>, << >>, x.sh, x.fi, LAMBDA e, bd, c : CDiv(At(x, e, bd, c), At(y, e, << >>, << >>)),
             LAMBDA r : H_division(Ar(a, r), Ar(b, r))))

\* no handler for Power, Abs, Real, Imag, Sqrt, Sign, conditions: expr = nonlinear_operator
DoPow(a, b) == LET x == store[a]  y == store[b] IN
  /\ IsVal(x) /\ IsVal(y) /\ TrueScalar(x) /\ TrueScalar(y)
  /\ Push(<<a, b>>, Mk("pow", <<a, b>>, << >>, << >>, << >>, LAMBDA e, bd, c : CPow(At(x, e, bd, c), At(y, e, bd, c)),
             LAMBDA r : H_nonlinear_operator(<<Ar(a, r), Ar(b, r)>>)))
Un(op, a, F(_), A(_)) == LET x == store[a] IN
  /\ IsVal(x)
  /\ Push(<<a>>, Mk(op, <<a>>, << >>, x.sh, x.fi, LAMBDA e, bd, c : F(At(x, e, bd, c)), A))
DoAbs(a)  == Un("abs", a, CAbs, LAMBDA r : H_nonlinear_operator(<<Ar(a, r)>>))
DoSqrt(a) == TrueScalar(store[a]) /\ Un("sqrt", a, CSqrt, LAMBDA r : H_nonlinear_operator(<<Ar(a, r)>>))
DoSign(a) == TrueScalar(store[a]) /\ Un("sign", a, CSignum, LAMBDA r : H_nonlinear_operator(<<Ar(a, r)>>))
DoImag(a) == Un("imag", a, CIm, LAMBDA r : H_nonlinear_operator(<<Ar(a, r)>>))
DoConj(a) == Un("conj", a, CConj, LAMBDA r : SeenConj(Ar(a, r)))
DoReal(a) == Un("real", a, CRe, LAMBDA r : SeenReal(Ar(a, r)))

\* Indexed(a, mi): entries 0..9 fixed, >= 10 an index name; names distinct and not free in a
IdxOk(x, mi) ==
  /\ IsVal(x) /\ Len(mi) = Rank(x) /\ Rank(x) > 0
  /\ \A k \in 1..Len(mi) : mi[k] < 10 => mi[k] < x.sh[k]
  /\ \A k \in 1..Len(mi) : mi[k] >= 10 =>
       /\ mi[k] \notin FiIdx(x.fi)
       /\ \A l \in 1..Len(mi) : l # k => mi[l] # mi[k]
DoIndex(a, mi) == LET x == store[a]
                      new == {<<mi[k], x.sh[k]>> : k \in {j \in 1..Len(mi) : mi[j] >= 10}} IN
  /\ IdxOk(x, mi)
  /\ Push(<<a>>, Mk("index", <<a>>, mi, << >>, SortFi(FiSet(x.fi) \cup new),
             LAMBDA e, bd, c : At(x, e, bd, [k \in 1..Len(mi) |-> IF mi[k] < 10 THEN mi[k] ELSE bd[mi[k]]]),
             LAMBDA r : H_linear_indexed_type(Ar(a, r), MI)))
\* IndexSum(a, i)
DoISum(a, i) == LET x == store[a]
                    R == {p \in FiSet(x.fi) : p[1] = i} IN
  /\ IsVal(x) /\ i \in FiIdx(x.fi)
  /\ Push(<<a>>, Mk("isum", <<a>>, <<i>>, x.sh, SortFi(FiSet(x.fi) \ R),
             LAMBDA e, bd, c : CSumSet(Binds(R), LAMBDA r : At(x, e, bd @@ r, c)),
             LAMBDA r : H_linear_indexed_type(Ar(a, r), MI)))
\* ComponentTensor(a, ii): a scalar valued, ii distinct free indices of a
DoAsTensor(a, ii) == LET x == store[a] IN
  /\ IsVal(x) /\ IsScalar(x) /\ Len(ii) > 0
  /\ \A k \in 1..Len(ii) : ii[k] \in FiIdx(x.fi)
  /\ \A k, l \in 1..Len(ii) : k # l => ii[k] # ii[l]
  /\ Push(<<a>>, Mk("as_tensor", <<a>>, ii, [k \in 1..Len(ii) |-> FiDim(x.fi, ii[k])],
             SortFi({p \in FiSet(x.fi) : \A k \in 1..Len(ii) : ii[k] # p[1]}),
             LAMBDA e, bd, c : At(x, e, bd @@ [i \in {ii[k] : k \in 1..Len(ii)} |-> c[CHOOSE k \in 1..Len(ii) : ii[k] = i]], << >>),
             LAMBDA r : H_linear_indexed_type(Ar(a, r), MI)))
\* ListTensor(a1, .., an): equal shapes and free indices
DoList(as) == LET x == store[as[1]] IN
  /\ Rank(x) < MaxRank
  /\ \A k \in 1..Len(as) : IsVal(store[as[k]]) /\ store[as[k]].sh = x.sh /\ store[as[k]].fi = x.fi
  /\ Push(as, Mk("list", as, << >>, <<Len(as)>> \o x.sh, x.fi,
             LAMBDA e, bd, c : At(store[as[c[1] + 1]], e, bd, SubSeq(c, 2, Len(c))),
             LAMBDA r : H_list_tensor(r, [k \in 1..Len(as) |-> Ar(as[k], r)], [k \in 1..Len(as) |-> IsZ(as[k])])))

\* conditions on true scalars; value 1 / 0, undefined for non-real operands of an order
CmpVal(op, z, w) ==
  IF op \in {"eq", "ne"} THEN (IF CDef(z) /\ CDef(w) THEN CBool((z = w) = (op = "eq")) ELSE CU)
  ELSE IF ~CCmpDef(z, w) THEN CU
  ELSE CBool(CASE op = "lt" -> CLt(z, w) [] op = "gt" -> CLt(w, z)
               [] op = "le" -> ~CLt(w, z) [] op = "ge" -> ~CLt(z, w))
DoCmp(op, a, b) == LET x == store[a]  y == store[b] IN
  /\ IsVal(x) /\ IsVal(y) /\ TrueScalar(x) /\ TrueScalar(y)
  /\ Push(<<a, b>>, Mk(op, <<a, b>>, << >>, << >>, << >>, LAMBDA e, bd, c : CmpVal(op, At(x, e, bd, c), At(y, e, bd, c)),
             LAMBDA r : H_nonlinear_operator(<<Ar(a, r), Ar(b, r)>>)))
DoCond(k, a, b) == LET cnd == store[k]  x == store[a]  y == store[b] IN
  /\ IsBool(cnd) /\ AddOk(x, y)
  /\ Push(<<k, a, b>>, Mk("cond", <<k, a, b>>, << >>, x.sh, x.fi,
             LAMBDA e, bd, c : LET p == cnd.val[e][<< >>] IN
                IF ~CDef(p) THEN CU ELSE IF p = C1 THEN At(x, e, bd, c) ELSE At(y, e, bd, c),
             LAMBDA r : H_conditional(Ar(k, r), Ar(a, r), Ar(b, r), IsZ(a), IsZ(b))))

\* PositiveRestricted(a) / Variable(a, Label): denote what the operand denotes
DoRestrict(a) == LET x == store[a] IN
  /\ x.op = "term"
  /\ Push(<<a>>, [x EXCEPT !.op = "restrict", !.args = <<a>>, !.mi = << >>,
                    !.arc = H_linear_operator(x.arc), !.ari = H_linear_operator(x.ari)])
DoVariable(a) == LET x == store[a] IN
  /\ IsVal(x) /\ x.op # "variable" /\ x.fi = << >>     \* "Variable cannot wrap an expression with free indices"
  /\ Push(<<a>>, [x EXCEPT !.op = "variable", !.args = <<a>>, !.mi = << >>,
                    !.arc = H_variable(x.arc, MI), !.ari = H_variable(x.ari, MI)])

\* ---- user-level tensor algebra on vectors / matrices and its lowered form ----
Disjoint(x, y) == FiIdx(x.fi) \cap FiIdx(y.fi) = {}
UnionFi(x, y) == SortFi(FiSet(x.fi) \cup FiSet(y.fi))
\* inner(a, b)  ==>  IndexSum(Product(a[i], Conj(b[i])), i)
DoInner(a, b) == LET x == store[a]  y == store[b] IN
  /\ IsVal(x) /\ IsVal(y) /\ x.sh = y.sh /\ Rank(x) >= 1 /\ Disjoint(x, y)
  /\ Push(<<a, b>>, Mk("inner", <<a, b>>, << >>, << >>, UnionFi(x, y),
             LAMBDA e, bd, c : CSumSet(Tup(x.sh), LAMBDA t : CMul(At(x, e, bd, t), CConj(At(y, e, bd, t)))),
             LAMBDA r : H_linear_indexed_type(
                          H_product(H_linear_indexed_type(Ar(a, r), MI),
                                    SeenConj(H_linear_indexed_type(Ar(b, r), MI))), MI)))
\* dot(a, b)  ==>  IndexSum(Product(a[..i], b[i..]), i)   (no conjugation)
DoDot(a, b) == LET x == store[a]  y == store[b] IN
  /\ IsVal(x) /\ IsVal(y) /\ Rank(x) >= 1 /\ Rank(y) >= 1 /\ x.sh[Len(x.sh)] = y.sh[1] /\ Disjoint(x, y)
  /\ Push(<<a, b>>, Mk("dot", <<a, b>>, << >>, SubSeq(x.sh, 1, Len(x.sh) - 1) \o SubSeq(y.sh, 2, Len(y.sh)), UnionFi(x, y),
             LAMBDA e, bd, c : CSumSet(0..(y.sh[1] - 1),
                 LAMBDA k : CMul(At(x, e, bd, SubSeq(c, 1, Rank(x) - 1) \o <<k>>),
                                 At(y, e, bd, <<k>> \o SubSeq(c, Rank(x), Len(c))))),
             LAMBDA r : H_linear_indexed_type(
                          H_linear_indexed_type(
                            H_product(H_linear_indexed_type(Ar(a, r), MI), H_linear_indexed_type(Ar(b, r), MI)), MI), MI)))
\* outer(a, b)  ==>  ComponentTensor(Product(Conj(a[i]), b[j]), (i, j))
DoOuter(a, b) == LET x == store[a]  y == store[b] IN
  /\ IsVal(x) /\ IsVal(y) /\ Rank(x) >= 1 /\ Rank(y) >= 1 /\ Rank(x) + Rank(y) <= MaxRank /\ Disjoint(x, y)
  /\ Push(<<a, b>>, Mk("outer", <<a, b>>, << >>, x.sh \o y.sh, UnionFi(x, y),
             LAMBDA e, bd, c : CMul(CConj(At(x, e, bd, SubSeq(c, 1, Rank(x)))), At(y, e, bd, SubSeq(c, Rank(x) + 1, Len(c)))),
             LAMBDA r : H_linear_indexed_type(
                          H_product(SeenConj(H_linear_indexed_type(Ar(a, r), MI)),
                                    H_linear_indexed_type(Ar(b, r), MI)), MI)))

-----------------------------------------------------------------------------
IdxNames == Slices[sl].idx
Mis(r) == [1..r -> (0..(MaxDim - 1)) \cup IdxNames]
IdxSeqs == UNION {[1..r -> IdxNames] : r \in 1..MaxRank}

\* one constructor call; op names the operation, a, b, k its operands (k: the condition of cond,
\* the third component of a 3-list)
Unary(op, a) ==
  \/ op = "abs" /\ Gen1(a) /\ DoAbs(a)
  \/ op = "sqrt" /\ Gen1(a) /\ DoSqrt(a)
  \/ op = "sign" /\ Gen1(a) /\ DoSign(a)
  \/ op = "conj" /\ Gen1(a) /\ DoConj(a)
  \/ op = "real" /\ Gen1(a) /\ DoReal(a)
  \* remove_complex_nodes refuses imag in real mode
  \/ op = "imag" /\ ComplexMode /\ Gen1(a) /\ DoImag(a)
  \/ op = "neg" /\ Gen1(a) /\ DoNeg(a)
  \/ op = "index" /\ Gen(a) /\ Rank(store[a]) >= 1 /\ \E mi \in Mis(Rank(store[a])) : DoIndex(a, mi)
  \/ op = "isum" /\ Gen(a) /\ \E i \in FiIdx(store[a].fi) : DoISum(a, i)
  \/ op = "as_tensor" /\ Gen(a) /\ \E ii \in IdxSeqs : DoAsTensor(a, ii)
  \/ op = "restrict" /\ DoRestrict(a)
  \/ op = "variable" /\ Gen1(a) /\ DoVariable(a)
Canon(a, b) == Slices[sl].canon => a <= b
Binary(op, a, b) ==
  \/ op = "add" /\ Gen2(a, b) /\ Canon(a, b) /\ DoAdd(a, b)
  \/ op = "sub" /\ Gen2(a, b) /\ a # b /\ DoSub(a, b)
  \/ op = "mul" /\ Gen2(a, b) /\ ~IsOne(a) /\ ~IsOne(b) /\ Canon(a, b) /\ DoMul(a, b)
  \/ op = "div" /\ Gen2(a, b) /\ ~IsOne(b) /\ DoDiv(a, b)
  \/ op = "pow" /\ Gen2(a, b) /\ ~IsOne(b) /\ DoPow(a, b)
  \/ op \in BoolOps /\ ~(IsL(a) /\ IsL(b)) /\ DoCmp(op, a, b)
  \/ op = "inner" /\ Gen2(a, b) /\ DoInner(a, b)
  \/ op = "dot" /\ Gen2(a, b) /\ DoDot(a, b)
  \/ op = "outer" /\ Gen2(a, b) /\ DoOuter(a, b)
  \/ op = "list" /\ ~(IsZ(a) /\ IsZ(b)) /\ DoList(<<a, b>>)
Ternary(op, a, b, k) ==
  \/ op = "list" /\ MaxDim >= 3 /\ ~(IsZ(a) /\ IsZ(b) /\ IsZ(k)) /\ DoList(<<a, b, k>>)
  \/ op = "cond" /\ a # b /\ DoCond(k, a, b)

Next ==
  /\ Room /\ sl' = sl
  /\ \E op \in OpSet : \E a \in Ids :
       \/ Unary(op, a)
       \/ \E b \in Ids : Binary(op, a, b) \/ \E k \in Ids : Ternary(op, a, b, k)

Spec == Init /\ [][Next]_vars

\* For -simulate: a few random constructor calls per step, of which TLC takes one that is enabled
\* (computing every successor of a state just to pick one is far too expensive here).  Operands
\* are biased towards the nodes built last so that programs stay connected.
Some(k, S) == RandomSubset(IF Cardinality(S) < k THEN Cardinality(S) ELSE k, S)
SimNext ==
  /\ Room /\ sl' = sl
  /\ \E op \in Some(3, OpSet) : \E x \in Some(2, Ids) : \E y \in Some(2, Ids) : \E coin \in Some(2, 1..4) :
       LET n == Len(store)
           a == IF coin <= 2 /\ n > NInit THEN n ELSE x
           b == IF coin = 2 /\ n - 1 > NInit THEN n - 1 ELSE IF coin = 3 /\ n > NInit THEN n ELSE y IN
       \/ Unary(op, a)
       \/ Binary(op, a, b)
       \/ \E k \in Some(1, Ids) : Ternary(op, a, b, k)
SimSpec == Init /\ [][SimNext]_vars


-----------------------------------------------------------------------------
(* Type soundness of the record built last (every node was the last one once) *)
WellFormed ==
  LET n == Len(store)
      x == store[n] IN
    /\ Len(x.sh) <= MaxRank
    /\ \A k \in 1..Len(x.sh) : x.sh[k] \in 1..MaxDim
    /\ \A k \in 1..(Len(x.fi) - 1) : x.fi[k][1] < x.fi[k + 1][1]
    /\ \A e \in {1, NEnv} : DOMAIN x.val[e] = Tup(FiDims(x.fi) \o x.sh)
    /\ \A k \in 1..Len(x.args) : x.args[k] < n
    /\ x.arc.m = x.ari.m
    /\ (TrueScalar(x) /\ IsVal(x)) <=> x.sem # NoSem

-----------------------------------------------------------------------------
(* The theorems, about the last node when it is an integrand *)
TopN == Len(store)
Top == store[TopN]
Integrand(x) == IsVal(x) /\ TrueScalar(x)
Built == TopN > NInit /\ Integrand(Top)
TheAr(x) == IF ListTensorRule = "as_coded" THEN x.arc ELSE x.ari
\* the form's arguments (pairs <<number, part>>): those of the integrand itself, or (a form with
\* further integrals) all of the slice; linearity is per argument NUMBER (all parts vary together)
SliceArgs == Slices[sl].fargs
FormArgSets(x) == {x.arc.m, SliceArgs}
NumsOf(FA) == {q[1] : q \in FA}
Accepts(x, FA) == Accepted(TheAr(x), FA, ComplexMode)
Multilinear(x, FA)       == \A n \in NumsOf(FA) : x.sem[n + 1].cls = "yes"
NonlinearOrAffine(x, FA) == \E n \in NumsOf(FA) : x.sem[n + 1].cls = "no"
AllDefined(x, FA)        == \A n \in NumsOf(FA) : x.sem[n + 1].cls # "unknown"

Sound ==
  Built => \A FA \in FormArgSets(Top) : Accepts(Top, FA) /\ AllDefined(Top, FA) => Multilinear(Top, FA)
RejectsNonlinear ==
  Built => \A FA \in FormArgSets(Top) : NonlinearOrAffine(Top, FA) => ~Accepts(Top, FA)

-----------------------------------------------------------------------------
(* Dump for the replay binding: program, verdicts of both rules, semantic classes *)
EncAr(A) == [rej |-> A.rej, s |-> SetToSeq(A.s), m |-> SetToSeq(A.m)]
DumpRec == LET x == Top
               M == x.arc.m IN
  [sl |-> sl,
   prog |-> [k \in 1..(TopN - NInit) |->
               [op |-> store[NInit + k].op, args |-> store[NInit + k].args, mi |-> store[NInit + k].mi]],
   arc |-> EncAr(x.arc), ari |-> EncAr(x.ari),
   acc |-> [c |-> Accepted(x.arc, M, ComplexMode), i |-> Accepted(x.ari, M, ComplexMode),
            call |-> Accepted(x.arc, SliceArgs, ComplexMode), iall |-> Accepted(x.ari, SliceArgs, ComplexMode)],
   sem |-> x.sem,
   zero |-> \A e \in Envs : x.val[e][<< >>] = C0]
DumpInv == (LiveIn(store) /\ Integrand(Top)) => PrintT(ToJson(DumpRec))
=============================================================================
