------------------------------ MODULE Grouping ------------------------------
(***************************************************************************)
(* C15.  Integral grouping (ufl/algorithms/domain_analysis.py) preserves   *)
(* what is integrated on each subdomain.                                   *)
(*                                                                         *)
(* The module has two independent halves.                                  *)
(*                                                                         *)
(*  ALGORITHM  one action per step of                                      *)
(*             Form.__init__ (canonical order of the integrals)            *)
(*             group_form_integrals:                                       *)
(*               GroupByDomainAndType   group_integrals_by_domain_and_type *)
(*               Rearrange   rearrange_integrals_by_single_subdomains      *)
(*               Accumulate  strip_coordinate_derivatives, grouping by     *)
(*                           coordinate derivative,                        *)
(*                           accumulate_integrands_with_same_metadata,     *)
(*                           attach_coordinate_derivatives                 *)
(*               MergeSameIntegrand   the "unique_integrals" loop          *)
(*             BuildIntegralData        build_integral_data                *)
(*             All lists are sequences in the order in which the code      *)
(*             fills them, because that order decides which metadata dict  *)
(*             survives when two of them share a canonical key.            *)
(*                                                                         *)
(*  MEANING    Total(f, app, d, t, k, m, c): the bag of atoms that the     *)
(*             ORIGINAL integrals of form f put on subdomain k (or on      *)
(*             "otherwise") of domain d, integral type t, with metadata m  *)
(*             and coordinate derivative c.  It never looks at the         *)
(*             algorithm's variables.                                      *)
(*                                                                         *)
(* The invariants say that after every step the intermediate lists still   *)
(* carry exactly Total, that integrals with different metadata are never   *)
(* merged, and that the output has the shape build_integral_data promises. *)
(*                                                                         *)
(* Encoding (TLC cannot mix strings and integers in one set):              *)
(*   subdomain id of an input integral = sequence of integers:             *)
(*       <<k>>        the int k            (k in Ids, Ids >= 1)            *)
(*       <<k1,..,kn>> the tuple (k1,..,kn) (n >= 2, members of Tuples)     *)
(*       <<EV>>       the string "everywhere"           (EV = 0)           *)
(*   after Rearrange a single id is an integer, OTH = -1 is "otherwise"    *)
(*   (ufl itself sorts "otherwise" as -1); after MergeSameIntegrand a      *)
(*   subdomain id is a tuple = sequence of such integers.                  *)
(*   integral type: 1 = "cell", 2 = "exterior_facet" (the order in which   *)
(*   ufl.measure.integral_types() lists them).                             *)
(*   metadata: an id in MDs.  Canon is canonicalize_metadata followed by   *)
(*   hash(): ids in Colliding share one canonical key.  INTENDED:          *)
(*   Colliding = {} (injective).  AS CODED: two array-valued quadrature    *)
(*   rules whose str() coincide collide.                                   *)
(*   coordinate derivative: an id in CDs, 0 = none.                        *)
(*   integrand: a bag of atoms = sequence of counts, one per atom.         *)
(***************************************************************************)
EXTENDS Integers, Sequences, FiniteSets, TLC, Json, SequencesExt

CONSTANTS Doms,        \* domain ids (ufl_id of the meshes; sort_domains orders by it)
          ITypes,      \* subset of {1, 2}
          Ids,         \* explicit subdomain ids, integers >= 1
          Tuples,      \* tuple subdomain ids offered to the form builder, e.g. {<<1,2>>}
          MDs,         \* metadata ids
          Colliding,   \* subset of MDs whose canonical keys coincide
          CDs,         \* coordinate-derivative ids, 0 = none
          Integrands,  \* the integrands offered to the form builder (bags of atoms)
          MaxN,        \* maximal number of integrals of a form
          Seeds,       \* forms from which building starts: {<< >>} = enumerate every form;
                       \* a set of given forms with MaxN = 0 = predict exactly those forms
          DumpOn       \* TRUE: print every finished run as JSON (conformance input)

EV  == 0
OTH == -1
EVS == <<EV>>

ASSUME /\ \A k \in Ids : k >= 1
       /\ Colliding \subseteq MDs
       /\ 0 \in CDs
       /\ \A s \in Tuples : Len(s) >= 2 /\ \A i \in DOMAIN s : s[i] \in Ids

-----------------------------------------------------------------------------
(* Bags of atoms *)
NA == Len(CHOOSE g \in Integrands : TRUE)
ZeroBag == [a \in 1..NA |-> 0]
BagAdd(x, y) == [a \in 1..NA |-> x[a] + y[a]]
Scale(n, x) == [a \in 1..NA |-> n * x[a]]
RECURSIVE SumBags(_)
SumBags(s) == IF s = <<>> THEN ZeroBag ELSE BagAdd(Head(s), SumBags(Tail(s)))

(* Sequence helpers *)
Rng(s) == {s[i] : i \in DOMAIN s}
Count(s, k) == Cardinality({j \in DOMAIN s : s[j] = k})
MapSeq(s, Op(_)) == [i \in DOMAIN s |-> Op(s[i])]
RECURSIVE Concat(_)
Concat(ss) == IF ss = <<>> THEN <<>> ELSE Head(ss) \o Concat(Tail(ss))
Rep(x, n) == [j \in 1..n |-> x]
\* distinct elements in order of first occurrence (the insertion order of a Python dict)
RECURSIVE Dedup(_)
Dedup(s) == IF s = <<>> THEN <<>>
            ELSE LET r == Dedup(Front(s)) IN
                 IF \E i \in DOMAIN r : r[i] = Last(s) THEN r ELSE Append(r, Last(s))
RECURSIVE SeqLess(_, _)
SeqLess(a, b) == IF a = <<>> THEN b # <<>>
                 ELSE IF b = <<>> THEN FALSE
                 ELSE IF a[1] # b[1] THEN a[1] < b[1]
                 ELSE SeqLess(Tail(a), Tail(b))
SortedInts(S) == SetToSortSeq(S, LAMBDA a, b : a < b)

(* canonicalize_metadata + hash *)
Canon(m) == IF m \in Colliding THEN CHOOSE x \in Colliding : \A y \in Colliding : x <= y ELSE m

-----------------------------------------------------------------------------
(* Input integrals *)
InputSids == {<<k>> : k \in Ids} \cup Tuples \cup {EVS}
Integral == [dom : Doms, itype : ITypes, sid : InputSids, md : MDs, cd : CDs, g : Integrands]

\* Form.__init__ / _sorted_integrals: by domain, integral type, then subdomain id with
\* key (type(sid).__name__, sid): "int" < "str" < "tuple"; stable among equal keys.
SidRank(s) == IF s = EVS THEN 1 ELSE IF Len(s) = 1 THEN 0 ELSE 2
FormKey(x) == <<x.dom, x.itype, SidRank(x.sid)>> \o x.sid

VARIABLES form,     \* the integrals of the Form, in the Form's canonical order
          append,   \* do_append_everywhere_integrals
          pc,       \* next step
          groups,   \* after GroupByDomainAndType: <<[dom, itype, itgs]>>
          singles,  \* after Rearrange: <<[dom, itype, sid (integer), itgs : <<[md, cd, g]>>]>>
          accum,    \* after Accumulate ("integrals"): <<[dom, itype, sid, md, mds, cd, g]>>
          merged,   \* after MergeSameIntegrand (the returned Form): sid is a tuple
          out       \* after BuildIntegralData: <<[dom, itype, sid, itgs : <<[md, mds, cd, g]>>]>>
vars == <<form, append, pc, groups, singles, accum, merged, out>>

Init == /\ form \in Seeds /\ append = FALSE /\ pc = "build"
        /\ groups = <<>> /\ singles = <<>> /\ accum = <<>> /\ merged = <<>> /\ out = <<>>

\* ---- building a form: a sum of integrals, kept in the Form's canonical order ----
AddIntegral ==
  /\ pc = "build" /\ Len(form) < MaxN
  /\ \E x \in Integral :
       /\ IF form = <<>> THEN TRUE ELSE ~SeqLess(FormKey(x), FormKey(Last(form)))
       /\ form' = Append(form, x)
  /\ UNCHANGED <<append, pc, groups, singles, accum, merged, out>>

\* group_form_integrals(form, form.ufl_domains(), do_append_everywhere_integrals = a)
Call ==
  /\ pc = "build" /\ form # <<>>
  /\ \E a \in BOOLEAN : append' = a
  /\ pc' = "group"
  /\ UNCHANGED <<form, groups, singles, accum, merged, out>>

\* ---- group_integrals_by_domain_and_type, iterated "for domain in domains: for integral_type
\*      in integral_types()": absent keys are skipped ----
GroupsOf(f) ==
  LET ds == SortedInts(Doms)
      ts == SortedInts(ITypes)
      Grp(d, t) == LET sel == SelectSeq(f, LAMBDA x : x.dom = d /\ x.itype = t) IN
                   IF sel = <<>> THEN <<>> ELSE <<[dom |-> d, itype |-> t, itgs |-> sel]>>
  IN Concat([i \in DOMAIN ds |-> Concat([j \in DOMAIN ts |-> Grp(ds[i], ts[j])])])

GroupByDomainAndType ==
  /\ pc = "group"
  /\ groups' = GroupsOf(form)
  /\ pc' = "rearrange"
  /\ UNCHANGED <<form, append, singles, accum, merged, out>>

\* ---- rearrange_integrals_by_single_subdomains(ddt_integrals, app), result listed in the
\*      order of sorted_by_key: integers ascending, then "otherwise" ----
Strip(x) == [md |-> x.md, cd |-> x.cd, g |-> x.g]
RearrangeGroup(grp, app) ==
  LET ev   == SelectSeq(grp.itgs, LAMBDA x : x.sid = EVS)       \* everywhere_integrals
      sub  == SelectSeq(grp.itgs, LAMBDA x : x.sid # EVS)       \* subdomain_integrals
      keys == SortedInts(UNION {Rng(sub[i].sid) : i \in DOMAIN sub})
      \* "for dids, itg in subdomain_integrals: for did in dids: single[did].append(itg)"
      \* then "for ev_itg in everywhere_integrals: if app: for k in keys: single[k].append(ev_itg)"
      ListFor(k) == Concat([i \in DOMAIN sub |-> Rep(Strip(sub[i]), Count(sub[i].sid, k))])
                    \o (IF app THEN MapSeq(ev, Strip) ELSE <<>>)
      Ent(k, l) == [dom |-> grp.dom, itype |-> grp.itype, sid |-> k, itgs |-> l]
  IN [j \in DOMAIN keys |-> Ent(keys[j], ListFor(keys[j]))]
     \o (IF ev # <<>> THEN <<Ent(OTH, MapSeq(ev, Strip))>> ELSE <<>>)

Rearrange ==
  /\ pc = "rearrange"
  /\ singles' = Concat([i \in DOMAIN groups |-> RearrangeGroup(groups[i], append)])
  /\ pc' = "accumulate"
  /\ UNCHANGED <<form, append, groups, accum, merged, out>>

\* ---- per single subdomain: split by coordinate derivative, then
\*      accumulate_integrands_with_same_metadata: group by hash(canonicalize_metadata(md)) in
\*      order of first occurrence, KEEP THE FIRST metadata dict of each group, add the
\*      integrands.  (The code then sorts the groups by integrand and canonical metadata; that
\*      order is not observable through anything the property speaks about.) ----
AccumulateEntry(e) ==
  LET cds == SortedInts({e.itgs[i].cd : i \in DOMAIN e.itgs})
      PerCd(c) ==
        LET same == SelectSeq(e.itgs, LAMBDA x : x.cd = c)
            keys == Dedup(MapSeq(same, LAMBDA x : Canon(x.md)))
            PerKey(q) == LET mem == SelectSeq(same, LAMBDA x : Canon(x.md) = q) IN
                         [dom |-> e.dom, itype |-> e.itype, sid |-> e.sid,
                          md |-> mem[1].md, mds |-> {mem[i].md : i \in DOMAIN mem},
                          cd |-> c, g |-> SumBags(MapSeq(mem, LAMBDA x : x.g))]
        IN [j \in DOMAIN keys |-> PerKey(keys[j])]
  IN Concat([i \in DOMAIN cds |-> PerCd(cds[i])])

Accumulate ==
  /\ pc = "accumulate"
  /\ accum' = Concat([i \in DOMAIN singles |-> AccumulateEntry(singles[i])])
  /\ pc' = "merge"
  /\ UNCHANGED <<form, append, groups, singles, merged, out>>

\* ---- "Group integrals by common integrand": key = (integral_type, domain, meta_hash,
\*      integrand [the coordinate derivative is part of it]); subdomain ids are collected into a
\*      tuple in list order; metadata_table[key] is overwritten, so THE LAST metadata dict wins;
\*      output in order of first occurrence of the key ----
MergeKey(r) == <<r.itype, r.dom, Canon(r.md), r.cd, r.g>>
MergeAll(acc) ==
  LET keys == Dedup(MapSeq(acc, MergeKey))
      PerKey(q) == LET mem == SelectSeq(acc, LAMBDA r : MergeKey(r) = q) IN
                   [dom |-> mem[1].dom, itype |-> mem[1].itype,
                    sid |-> [i \in DOMAIN mem |-> mem[i].sid],
                    md |-> mem[Len(mem)].md, mds |-> UNION {mem[i].mds : i \in DOMAIN mem},
                    cd |-> mem[1].cd, g |-> mem[1].g]
  IN [j \in DOMAIN keys |-> PerKey(keys[j])]

MergeSameIntegrand ==
  /\ pc = "merge"
  /\ merged' = MergeAll(accum)
  /\ pc' = "data"
  /\ UNCHANGED <<form, append, groups, singles, accum, out>>

\* ---- build_integral_data: one IntegralData per (domain, type, subdomain-id tuple), sorted by
\*      (domain, type, tuple with "otherwise" as -1) ----
DataKey(r) == <<r.dom, r.itype>> \o r.sid
BuildData(mg) ==
  LET keys == Dedup(MapSeq(mg, LAMBDA r : <<r.dom, r.itype, r.sid>>))
      PerKey(q) == LET mem == SelectSeq(mg, LAMBDA r : <<r.dom, r.itype, r.sid>> = q) IN
                   [dom |-> q[1], itype |-> q[2], sid |-> q[3],
                    itgs |-> MapSeq(mem, LAMBDA r : [md |-> r.md, mds |-> r.mds, cd |-> r.cd, g |-> r.g])]
  IN SortSeq([j \in DOMAIN keys |-> PerKey(keys[j])], LAMBDA a, b : SeqLess(DataKey(a), DataKey(b)))

BuildIntegralData ==
  /\ pc = "data"
  /\ out' = BuildData(merged)
  /\ pc' = "done"
  /\ UNCHANGED <<form, append, groups, singles, accum, merged>>

Next == \/ AddIntegral \/ Call \/ GroupByDomainAndType \/ Rearrange \/ Accumulate
        \/ MergeSameIntegrand \/ BuildIntegralData
        \/ (pc = "done" /\ UNCHANGED vars)
Spec == Init /\ [][Next]_vars

-----------------------------------------------------------------------------
(* MEANING: what the original integrals put on a subdomain *)

\* the explicitly numbered subdomains of (d, t)
Explicit(f, d, t) ==
  {k \in Ids : \E i \in DOMAIN f : f[i].dom = d /\ f[i].itype = t /\ f[i].sid # EVS /\ k \in Rng(f[i].sid)}

\* how often integral x applies to subdomain k (k = OTH: the rest of the domain)
Applies(x, app, k) ==
  IF x.sid = EVS THEN (IF k = OTH \/ app THEN 1 ELSE 0)
  ELSE IF k = OTH THEN 0 ELSE Count(x.sid, k)

Total(f, app, d, t, k, m, c) ==
  IF k # OTH /\ k \notin Explicit(f, d, t) THEN ZeroBag
  ELSE SumBags([i \in DOMAIN f |->
         IF f[i].dom = d /\ f[i].itype = t /\ f[i].md = m /\ f[i].cd = c
         THEN Scale(Applies(f[i], app, k), f[i].g) ELSE ZeroBag])

\* what is really integrated over the cells marked k, whichever option is used: the explicit
\* integrals over k plus the integrals over the whole domain
Integrated(f, d, t, k, m, c) ==
  SumBags([i \in DOMAIN f |->
     IF f[i].dom = d /\ f[i].itype = t /\ f[i].md = m /\ f[i].cd = c
     THEN Scale(IF f[i].sid = EVS THEN 1 ELSE Count(f[i].sid, k), f[i].g) ELSE ZeroBag])

-----------------------------------------------------------------------------
(* Observation of the intermediate lists: flat <<[dom, itype, sids, md, mds, cd, g]>> *)
FlatSingles ==
  Concat([i \in DOMAIN singles |->
    MapSeq(singles[i].itgs, LAMBDA x : [dom |-> singles[i].dom, itype |-> singles[i].itype,
                                        sids |-> <<singles[i].sid>>, md |-> x.md, mds |-> {x.md},
                                        cd |-> x.cd, g |-> x.g])])
FlatAccum  == MapSeq(accum, LAMBDA r : [dom |-> r.dom, itype |-> r.itype, sids |-> <<r.sid>>,
                                        md |-> r.md, mds |-> r.mds, cd |-> r.cd, g |-> r.g])
FlatMerged == MapSeq(merged, LAMBDA r : [dom |-> r.dom, itype |-> r.itype, sids |-> r.sid,
                                         md |-> r.md, mds |-> r.mds, cd |-> r.cd, g |-> r.g])
FlatOut ==
  Concat([i \in DOMAIN out |->
    MapSeq(out[i].itgs, LAMBDA x : [dom |-> out[i].dom, itype |-> out[i].itype,
                                    sids |-> out[i].sid, md |-> x.md, mds |-> x.mds,
                                    cd |-> x.cd, g |-> x.g])])

\* the list produced by the last step taken
Current == CASE pc = "accumulate" -> FlatSingles
             [] pc = "merge"      -> FlatAccum
             [] pc = "data"       -> FlatMerged
             [] pc = "done"       -> FlatOut
             [] OTHER             -> <<>>
Computed == pc \in {"accumulate", "merge", "data", "done"}

On(fl, d, t, k, m, c) ==
  SumBags([i \in DOMAIN fl |->
     IF fl[i].dom = d /\ fl[i].itype = t /\ fl[i].md = m /\ fl[i].cd = c
     THEN Scale(Count(fl[i].sids, k), fl[i].g) ELSE ZeroBag])

Ks == Ids \cup {OTH}

\* the (domain, type, metadata, coordinate derivative) combinations that occur in a form or in a
\* list; for every other combination On(...) and Total(...) are ZeroBag by definition, so
\* quantifying over these is quantifying over all of Doms \X ITypes \X MDs \X CDs
FormKeys(f)  == {<<f[i].dom, f[i].itype, f[i].md, f[i].cd>> : i \in DOMAIN f}

-----------------------------------------------------------------------------
(* INVARIANTS *)

\* after every step, on every subdomain, per metadata and coordinate derivative: exactly the
\* original integrands, nothing lost, nothing duplicated
TotalsPreserved ==
  Computed => LET cur == Current IN
              \A q \in FormKeys(form) \cup FormKeys(cur), k \in Ks :
                On(cur, q[1], q[2], k, q[3], q[4]) = Total(form, append, q[1], q[2], k, q[3], q[4])

\* integrals whose metadata differ are never merged
NoCrossMetadataMerge ==
  Computed => LET cur == Current IN \A i \in DOMAIN cur : cur[i].mds = {cur[i].md}

\* no subdomain is invented: only explicitly numbered ids and (iff there are everywhere
\* integrals) "otherwise" appear
NoPhantomSubdomain ==
  Computed => LET cur == Current IN \A i \in DOMAIN cur :
     /\ cur[i].g # ZeroBag
     /\ \A k \in Rng(cur[i].sids) :
          IF k = OTH
          THEN \E j \in DOMAIN form : form[j].dom = cur[i].dom /\ form[j].itype = cur[i].itype
                                      /\ form[j].sid = EVS
          ELSE k \in Explicit(form, cur[i].dom, cur[i].itype)

\* whatever the option, the cells marked k receive the explicit integrals over k plus the
\* integrals over the whole domain, when the consumer applies the documented convention:
\* append on:  kernel of k if k is numbered in the form, else the "otherwise" kernel;
\* append off: kernel of k plus the "otherwise" kernel
SameMeaningUnderBothOptions ==
  pc = "done" => LET fo == FlatOut IN \A q \in FormKeys(form) \cup FormKeys(fo), k \in Ids :
     LET d == q[1]  t == q[2]  m == q[3]  c == q[4]
         own == On(fo, d, t, k, m, c)
         oth == On(fo, d, t, OTH, m, c)
         eff == IF append THEN (IF k \in Explicit(form, d, t) THEN own ELSE oth)
                ELSE BagAdd(own, oth)
     IN eff = Integrated(form, d, t, k, m, c)

\* shape of the result: one IntegralData per (domain, type, id tuple), sorted; inside one
\* (domain, type, metadata key, coordinate derivative) every id occurs in exactly one tuple and
\* once; two integrals of one IntegralData never share metadata key and coordinate derivative
OutputShape ==
  pc = "done" =>
    /\ \A i, j \in DOMAIN out : i < j => SeqLess(DataKey(out[i]), DataKey(out[j]))
    /\ \A i \in DOMAIN out : out[i].itgs # <<>> /\ out[i].sid # <<>>
    /\ LET fo == FlatOut IN
       /\ \A i, j \in DOMAIN fo :
            (i # j /\ fo[i].dom = fo[j].dom /\ fo[i].itype = fo[j].itype
             /\ Canon(fo[i].md) = Canon(fo[j].md) /\ fo[i].cd = fo[j].cd)
            => /\ Rng(fo[i].sids) \cap Rng(fo[j].sids) = {}
               /\ fo[i].g # fo[j].g      \* equal integrands have been merged
       /\ \A i \in DOMAIN fo : \A k \in Rng(fo[i].sids) : Count(fo[i].sids, k) = 1

TypeOK ==
  /\ pc \in {"build", "group", "rearrange", "accumulate", "merge", "data", "done"}
  /\ (MaxN > 0 => Len(form) <= MaxN) /\ \A i \in DOMAIN form : form[i] \in Integral
  /\ \A i \in DOMAIN form : i > 1 => ~SeqLess(FormKey(form[i]), FormKey(form[i - 1]))

-----------------------------------------------------------------------------
(* The table handed to the conformance check, one JSON line per finished run.  Positional
   arrays keep the dump small:
     [ form, append, out, totals ]
     form   = [[dom, itype, sid, md, cd, bag], ...]
     out    = [[dom, itype, sid, [[md, mds, cd, bag], ...]], ...]      (the IntegralData list)
     totals = [[dom, itype, k, md, cd, bag], ...]                      (non-zero Total only) *)
EncIn(x)  == <<x.dom, x.itype, x.sid, x.md, x.cd, x.g>>
EncItg(x) == <<x.md, SortedInts(x.mds), x.cd, x.g>>
EncOut(e) == <<e.dom, e.itype, e.sid, MapSeq(e.itgs, EncItg)>>
TotalsTable ==
  LET keys == SetToSeq({q \in {<<p[1], p[2], k, p[3], p[4]>> : p \in FormKeys(form), k \in Ks} :
                          Total(form, append, q[1], q[2], q[3], q[4], q[5]) # ZeroBag})
  IN [j \in DOMAIN keys |->
        <<keys[j][1], keys[j][2], keys[j][3], keys[j][4], keys[j][5],
          Total(form, append, keys[j][1], keys[j][2], keys[j][3], keys[j][4], keys[j][5])>>]
DumpRec == <<MapSeq(form, EncIn), append, MapSeq(out, EncOut), TotalsTable>>
Dump == (DumpOn /\ pc = "done") => PrintT(ToJson(DumpRec))
=============================================================================
