------------------------------- MODULE CQbase -------------------------------
(***************************************************************************)
(* Exact scalar arithmetic for the UFL semantics: rationals <<n, d>> with  *)
(* d > 0 in lowest terms, and Gaussian rationals <<re, im>>.  QU / CU are   *)
(* the UNDEFINED values (denominator 0): division by zero, non-rational    *)
(* roots, comparisons of complex numbers, and anything whose numerator or  *)
(* denominator would leave the range LIM (TLC integers are 32 bit) are     *)
(* undefined, and every operation propagates undefinedness.  The harness   *)
(* never compares an undefined prediction (it counts them).                *)
(***************************************************************************)
EXTENDS Integers, Sequences

LIM == 32000          \* |n|, d <= LIM  =>  every intermediate product and sum of two products < 2^31

AbsI(x) == IF x < 0 THEN -x ELSE x
RECURSIVE GCD(_, _)
GCD(a, b) == IF b = 0 THEN a ELSE GCD(b, a % b)

QU == <<0, 0>>
QDef(q) == q[2] # 0
QN(n, d) ==
  IF d = 0 THEN QU
  ELSE LET g  == GCD(AbsI(n), AbsI(d))
           s  == IF d < 0 THEN -1 ELSE 1
           nn == s * (n \div g)
           dd == s * (d \div g)
       IN IF AbsI(nn) > LIM \/ dd > LIM THEN QU ELSE <<nn, dd>>
QI(n) == <<n, 1>>
Q0 == <<0, 1>>
Q1 == <<1, 1>>
QAdd(p, q) == IF QDef(p) /\ QDef(q) THEN QN(p[1] * q[2] + q[1] * p[2], p[2] * q[2]) ELSE QU
QNeg(p)    == IF QDef(p) THEN <<-p[1], p[2]>> ELSE QU
QSub(p, q) == QAdd(p, QNeg(q))
QMul(p, q) == IF QDef(p) /\ QDef(q) THEN QN(p[1] * q[1], p[2] * q[2]) ELSE QU
QInv(p)    == IF QDef(p) /\ p[1] # 0 THEN QN(p[2], p[1]) ELSE QU
QDiv(p, q) == QMul(p, QInv(q))
QIsZero(p) == QDef(p) /\ p[1] = 0
QLt(p, q)  == p[1] * q[2] < q[1] * p[2]          \* only for defined p, q
QSign(p)   == IF p[1] > 0 THEN 1 ELSE IF p[1] < 0 THEN -1 ELSE 0
QAbs(p)    == IF QDef(p) THEN <<AbsI(p[1]), p[2]>> ELSE QU
IsSquare(n) == n >= 0 /\ \E k \in 0..150 : k * k = n
ISqrt(n) == CHOOSE k \in 0..150 : k * k = n
QSqrt(p) == IF QDef(p) /\ IsSquare(p[1]) /\ IsSquare(p[2]) THEN <<ISqrt(p[1]), ISqrt(p[2])>> ELSE QU

\* ---- Gaussian rationals ----
CU == <<QU, QU>>
CDef(z) == QDef(z[1]) /\ QDef(z[2])
CK(z) == IF CDef(z) THEN z ELSE CU
CR(q) == CK(<<q, Q0>>)                    \* real number
CI(n) == <<QI(n), Q0>>                    \* integer
C0 == CI(0)
C1 == CI(1)
CQ2(n, d) == CR(QN(n, d))
CIsReal(z) == QIsZero(z[2])
CIsZero(z) == QIsZero(z[1]) /\ QIsZero(z[2])
CAdd(z, w) == CK(<<QAdd(z[1], w[1]), QAdd(z[2], w[2])>>)
CNeg(z)    == CK(<<QNeg(z[1]), QNeg(z[2])>>)
CSub(z, w) == CAdd(z, CNeg(w))
CMul(z, w) == CK(<<QSub(QMul(z[1], w[1]), QMul(z[2], w[2])), QAdd(QMul(z[1], w[2]), QMul(z[2], w[1]))>>)
CConj(z)   == CK(<<z[1], QNeg(z[2])>>)
CRe(z)     == CK(<<z[1], Q0>>)
CIm(z)     == CK(<<z[2], Q0>>)
CNorm2(z)  == QAdd(QMul(z[1], z[1]), QMul(z[2], z[2]))
CInv(z)    == LET n == CNorm2(z) IN
              IF ~CDef(z) \/ ~QDef(n) \/ QIsZero(n) THEN CU
              ELSE CK(<<QDiv(z[1], n), QNeg(QDiv(z[2], n))>>)
CDiv(z, w) == CMul(z, CInv(w))
CAbs(z)    == IF ~CDef(z) THEN CU ELSE IF CIsReal(z) THEN CR(QAbs(z[1])) ELSE CR(QSqrt(CNorm2(z)))
CSqrt(z)   == IF CDef(z) /\ CIsReal(z) /\ z[1][1] >= 0 THEN CR(QSqrt(z[1])) ELSE CU
RECURSIVE CPowNat(_, _)
CPowNat(z, k) == IF k = 0 THEN C1 ELSE CMul(z, CPowNat(z, k - 1))
\* z ** w for integer w (negative: reciprocal) and w = 1/2 of a non-negative real; otherwise
\* outside the rational fragment.  0 ** negative is undefined.
CPow(z, w) ==
  IF ~CDef(z) \/ ~CDef(w) \/ ~CIsReal(w) THEN CU
  ELSE IF w[1][2] = 1 THEN
         (IF w[1][1] >= 0 THEN (IF w[1][1] > 6 THEN CU ELSE CPowNat(z, w[1][1]))
          ELSE IF w[1][1] < -6 THEN CU ELSE CInv(CPowNat(z, -w[1][1])))
  ELSE IF w[1] = <<1, 2>> THEN CSqrt(z)
  ELSE CU
\* order comparisons exist for real operands only; TRUE/FALSE/"undef" as 1/0/-1
CCmpDef(z, w) == CDef(z) /\ CDef(w) /\ CIsReal(z) /\ CIsReal(w)
CLt(z, w) == QLt(z[1], w[1])
CEq(z, w) == z = w
CBool(b) == IF b THEN C1 ELSE C0
CSignum(z) == IF CDef(z) /\ CIsReal(z) THEN CI(QSign(z[1])) ELSE CU

\* Elementary functions.  Their values are rational only at one point each; there the value and the first two
\* derivatives are integers:  MathAt(f) = <<point p, f(p), f'(p), f''(p)>>.  Anywhere else the value is outside
\* the rational fragment (undefined, not compared).
MathFns == {"exp", "ln", "sin", "cos", "tan", "sinh", "cosh", "tanh", "asin", "atan"}
MathAt(f) == CASE f = "exp"  -> <<0, 1, 1, 1>>
               [] f = "ln"   -> <<1, 0, 1, 0 - 1>>
               [] f = "sin"  -> <<0, 0, 1, 0>>
               [] f = "cos"  -> <<0, 1, 0, 0 - 1>>
               [] f = "tan"  -> <<0, 0, 1, 0>>
               [] f = "sinh" -> <<0, 0, 1, 0>>
               [] f = "cosh" -> <<0, 1, 0, 1>>
               [] f = "tanh" -> <<0, 0, 1, 0>>
               [] f = "asin" -> <<0, 0, 1, 0>>
               [] f = "atan" -> <<0, 0, 1, 0>>
=============================================================================
