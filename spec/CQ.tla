--------------------------------- MODULE CQ ---------------------------------
(***************************************************************************)
(* The scalar domain of the UFL semantics.  This (default) variant is the  *)
(* field of Gaussian rationals of CQbase.  The variant spec/jets/CQ.tla    *)
(* (selected by putting spec/jets first on the TLA+ library path) defines  *)
(* the SAME operator names over truncated Taylor series in two nilpotent   *)
(* variables, which is how derivatives are given a meaning.                *)
(***************************************************************************)
EXTENDS CQbase

CSame(z, w) == z = w          \* equality of values (eq / ne conditions)
CLit(z) == z                  \* embed a constant of CQbase
CVal0(z) == z                 \* the plain value
CSelS(z) == CU                \* coefficient of the first nilpotent variable: none here
CSelT(z) == CU
CSeed(z, ds, dt) == z         \* perturbations have no effect in the plain domain
Jets == FALSE
CMath(f, z) == IF CDef(z) /\ z = CI(MathAt(f)[1]) THEN CI(MathAt(f)[2]) ELSE CU
=============================================================================
