------------------------------- MODULE CLbase -------------------------------
(***************************************************************************)
(* The coefficient field of the series domain (spec/jets/CQ.tla):           *)
(* polynomials  c0 + c1 L + c2 L^2 + ...  in ONE transcendental atom        *)
(*      L = ln 2                                                            *)
(* over the Gaussian rationals of CQbase, written <<c0, c1, ...>> without   *)
(* trailing zero coefficients (so equal values are equal tuples).  Because  *)
(* L is transcendental this ring is exact: two polynomials denote the same  *)
(* number iff they are the same polynomial.  It makes ln, exp and general   *)
(* powers decidable at a second family of points: ln 2 = L, ln 2^k = k L,   *)
(* exp(k L) = 2^k, 2 ** g for an exponent g that varies.  Everything that   *)
(* is not a ring operation (reciprocal, root, absolute value, order         *)
(* comparison, sign) is defined on constants only and undefined (CU) on a   *)
(* polynomial that contains L.  Degrees are cut at MaxDeg (undefined        *)
(* beyond), which bounds the size of values.  The operator names are those  *)
(* of CQbase, so the series domain is written once.                         *)
(***************************************************************************)
EXTENDS Integers, Sequences
Q == INSTANCE CQbase

LIM == Q!LIM
MaxDeg == 3
CU == <<Q!CU>>
Lift(c) == <<c>>
C0 == <<Q!C0>>
C1 == <<Q!C1>>
CI(n) == <<Q!CI(n)>>
CR(q) == <<Q!CR(q)>>
CQ2(n, d) == <<Q!CQ2(n, d)>>
LL == <<Q!C0, Q!C1>>                       \* the atom L = ln 2
IsConst(p) == Len(p) = 1
CDef(p) == \A k \in 1..Len(p) : Q!CDef(p[k])
Coef(p, k) == IF k <= Len(p) THEN p[k] ELSE Q!C0
RECURSIVE Trim(_)
Trim(p) == IF Len(p) > 1 /\ p[Len(p)] = Q!C0 THEN Trim(SubSeq(p, 1, Len(p) - 1)) ELSE p
CK(p0) == LET p == p0 IN IF ~CDef(p) \/ Len(p) > MaxDeg + 1 THEN CU ELSE Trim(p)
MaxI(a, b) == IF a > b THEN a ELSE b

CIsReal(p) == \A k \in 1..Len(p) : Q!CIsReal(p[k])
CIsZero(p) == IsConst(p) /\ Q!CIsZero(p[1])
\* Polynomials are built with explicit tuple constructors (at most MaxDeg + 1 = 4 coefficients): a value written
\* as a function constructor [k \in 1..n |-> ...] stays unevaluated in TLC and is evaluated again at every use.
\* Arguments are bound by LET first for the same reason.
Map4(F(_), p) == IF IsConst(p) THEN <<F(p[1])>>
                 ELSE CK(<<F(Coef(p, 1)), F(Coef(p, 2)), F(Coef(p, 3)), F(Coef(p, 4))>>)
CAdd(p0, q0) == LET p == p0  q == q0 IN
              IF IsConst(p) /\ IsConst(q) THEN <<Q!CAdd(p[1], q[1])>>
              ELSE IF ~CDef(p) \/ ~CDef(q) THEN CU
              ELSE CK(<<Q!CAdd(Coef(p, 1), Coef(q, 1)), Q!CAdd(Coef(p, 2), Coef(q, 2)),
                        Q!CAdd(Coef(p, 3), Coef(q, 3)), Q!CAdd(Coef(p, 4), Coef(q, 4))>>)
CNeg(p0)   == LET p == p0 IN Map4(Q!CNeg, p)
CSub(p, q) == CAdd(p, CNeg(q))
\* coefficient k (1-based) of the product: sum over i + j = k + 1
RECURSIVE ConvAt(_, _, _, _)
ConvAt(p, q, k, i) == IF i > k THEN Q!C0
                      ELSE Q!CAdd(Q!CMul(Coef(p, i), Coef(q, k + 1 - i)), ConvAt(p, q, k, i + 1))
CMul(p0, q0) == LET p == p0  q == q0 IN
              IF IsConst(p) /\ IsConst(q) THEN <<Q!CMul(p[1], q[1])>>
              ELSE IF ~CDef(p) \/ ~CDef(q) THEN CU
              ELSE IF ConvAt(p, q, 5, 1) # Q!C0 \/ ConvAt(p, q, 6, 1) # Q!C0 \/ ConvAt(p, q, 7, 1) # Q!C0 THEN CU   \* degree > MaxDeg
              ELSE CK(<<ConvAt(p, q, 1, 1), ConvAt(p, q, 2, 1), ConvAt(p, q, 3, 1), ConvAt(p, q, 4, 1)>>)
CConj(p0)  == LET p == p0 IN Map4(Q!CConj, p)          \* L is real
CRe(p0)    == LET p == p0 IN Map4(Q!CRe, p)
CIm(p0)    == LET p == p0 IN Map4(Q!CIm, p)
\* not ring operations: constants only
CInv(p0)   == LET p == p0 IN IF IsConst(p) THEN <<Q!CInv(p[1])>> ELSE CU
CDiv(p, q) == CMul(p, CInv(q))
CAbs(p)    == IF IsConst(p) THEN <<Q!CAbs(p[1])>> ELSE CU
CSqrt(p)   == IF IsConst(p) THEN <<Q!CSqrt(p[1])>> ELSE CU
CCmpDef(p, q) == IsConst(p) /\ IsConst(q) /\ Q!CCmpDef(p[1], q[1])
CLt(p, q)  == Q!CLt(p[1], q[1])
CSignum(p) == IF IsConst(p) THEN <<Q!CSignum(p[1])>> ELSE CU
\* facts about constants that the series domain asks for
RealPos(p) == IsConst(p) /\ p[1][1][1] > 0                 \* a positive real constant (for defined real p)
IsInt(p)   == IsConst(p) /\ Q!CDef(p[1]) /\ Q!CIsReal(p[1]) /\ p[1][1][2] = 1
IntOf(p)   == p[1][1][1]
IsHalf(p)  == p = <<Q!CQ2(1, 2)>>
\* k L for an integer k, and 2^k
KL(k) == IF k = 0 THEN C0 ELSE <<Q!C0, Q!CI(k)>>
IsKL(p) == Len(p) = 2 /\ p[1] = Q!C0 /\ Q!CDef(p[2]) /\ Q!CIsReal(p[2]) /\ p[2][1][2] = 1
KOf(p) == p[2][1][1]
RECURSIVE Pow2(_)
Pow2(k) == IF k = 0 THEN Q!C1 ELSE IF k > 0 THEN Q!CMul(Q!CI(2), Pow2(k - 1)) ELSE Q!CDiv(Pow2(k + 1), Q!CI(2))
MathFns == Q!MathFns
MathAt(f) == Q!MathAt(f)
=============================================================================
