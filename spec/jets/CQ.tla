--------------------------------- MODULE CQ ---------------------------------
(***************************************************************************)
(* Scalar domain for derivative semantics: truncated Taylor series          *)
(*      z = z0 + z1 s + z2 t + z3 st,      s^2 = t^2 = 0                     *)
(* over the coefficient field of CLbase (Gaussian rationals extended by    *)
(* the transcendental atom L = ln 2), written <<z0, z1, z2, z3>>.           *)
(* Seeding a terminal f as f + s df + t d'f + st dd'f and evaluating an     *)
(* expression gives, by Taylor's theorem, its value, its directional        *)
(* derivatives along d and d' and the mixed second derivative, exactly.     *)
(* Every component may be undefined on its own (B!CU): an operation that is *)
(* not differentiable at the point (abs, sign, conditions at 0, roots of    *)
(* non-squares) leaves the affected components undefined.                   *)
(* The operator names are those of the plain variant spec/CQ.tla.           *)
(***************************************************************************)
EXTENDS Integers, Sequences
B == INSTANCE CLbase

LIM == B!LIM
CU == <<B!CU, B!CU, B!CU, B!CU>>
CLit(z) == <<z, B!C0, B!C0, B!C0>>
C0 == CLit(B!C0)
C1 == CLit(B!C1)
CI(n) == CLit(B!CI(n))
CVal0(z) == z[1]
CDef(z) == B!CDef(z[1])                       \* the VALUE is defined
CK(z) == z
Jets == TRUE

Map1(F(_), z0) == LET z == z0 IN <<F(z[1]), F(z[2]), F(z[3]), F(z[4])>>
CAdd(z0, w0) == LET z == z0  w == w0 IN <<B!CAdd(z[1], w[1]), B!CAdd(z[2], w[2]), B!CAdd(z[3], w[3]), B!CAdd(z[4], w[4])>>
CNeg(z) == Map1(B!CNeg, z)
CSub(z, w) == CAdd(z, CNeg(w))
CMul(z0, w0) == LET z == z0  w == w0 IN
  <<B!CMul(z[1], w[1]),
    B!CAdd(B!CMul(z[1], w[2]), B!CMul(z[2], w[1])),
    B!CAdd(B!CMul(z[1], w[3]), B!CMul(z[3], w[1])),
    B!CAdd(B!CAdd(B!CMul(z[1], w[4]), B!CMul(z[4], w[1])), B!CAdd(B!CMul(z[2], w[3]), B!CMul(z[3], w[2])))>>
\* g(z) for an analytic g with g(z0) = g0, g'(z0) = g1, g''(z0) = g2 :
\*   g0 + g1 z1 s + g1 z2 t + (g1 z3 + g2 z1 z2) st
Compose(z0, g00, g10, g20) == LET z == z0  g0 == g00  g1 == g10  g2 == g20 IN
  <<g0, B!CMul(g1, z[2]), B!CMul(g1, z[3]), B!CAdd(B!CMul(g1, z[4]), B!CMul(g2, B!CMul(z[2], z[3])))>>
CInv(z0) == LET z == z0  i == B!CInv(z[1]) IN
           Compose(z, i, B!CNeg(B!CMul(i, i)), B!CMul(B!CI(2), B!CMul(i, B!CMul(i, i))))
CDiv(z, w) == CMul(z, CInv(w))
CConj(z) == Map1(B!CConj, z)
CRe(z) == Map1(B!CRe, z)
CIm(z) == Map1(B!CIm, z)
CIsReal(z) == B!CIsReal(z[1])
CIsZero(z) == B!CIsZero(z[1])
Flat(z) == z[2] = B!C0 /\ z[3] = B!C0 /\ z[4] = B!C0      \* no dependence on the perturbations
\* |z|: for real z0 # 0 it is sign(z0) z; at 0 (and for complex values) not differentiable
CAbs(z) == IF ~B!CDef(z[1]) THEN CU
           ELSE IF Flat(z) THEN CLit(B!CAbs(z[1]))
           ELSE IF B!IsConst(z[1]) /\ B!CIsReal(z[1]) /\ ~B!CIsZero(z[1]) THEN (IF B!RealPos(z[1]) THEN z ELSE CNeg(z))
           ELSE <<B!CAbs(z[1]), B!CU, B!CU, B!CU>>
CSqrt(z) == LET r == B!CSqrt(z[1])
                h == B!CDiv(B!C1, B!CMul(B!CI(2), r))                       \* 1 / (2 sqrt z0)
                q == B!CNeg(B!CDiv(h, B!CMul(B!CI(2), z[1])))               \* -1 / (4 z0 sqrt z0)
            IN IF Flat(z) THEN CLit(r) ELSE Compose(z, r, h, q)
RECURSIVE CPowNat(_, _)
CPowNat(z, k) == IF k = 0 THEN C1 ELSE CMul(z, CPowNat(z, k - 1))
\* elementary functions at their decidable points: value and derivatives by the chain rule (Compose).
\* Besides the rational point of each function (MathAt):  ln 2^k = k L (k = 1, 2, -1),  exp(k L) = 2^k.
CMath(f, z0) == LET m == B!MathAt(f)  z == z0 IN
  IF ~B!CDef(z[1]) THEN CU
  ELSE IF z[1] = B!CI(m[1]) THEN Compose(z, B!CI(m[2]), B!CI(m[3]), B!CI(m[4]))
  ELSE IF f = "ln" /\ z[1] = B!CI(2) THEN Compose(z, B!LL, B!CQ2(1, 2), B!CQ2(0 - 1, 4))
  ELSE IF f = "ln" /\ z[1] = B!CI(4) THEN Compose(z, B!KL(2), B!CQ2(1, 4), B!CQ2(0 - 1, 16))
  ELSE IF f = "ln" /\ z[1] = B!CQ2(1, 2) THEN Compose(z, B!KL(0 - 1), B!CI(2), B!CI(0 - 4))
  ELSE IF f = "exp" /\ B!IsKL(z[1]) /\ B!KOf(z[1]) \in (0 - 6)..6
       THEN LET v == B!Lift(B!Pow2(B!KOf(z[1]))) IN Compose(z, v, v, v)
  ELSE CU
\* z ** w.  A constant exponent: integer (negative: reciprocal) or 1/2.  An exponent that depends on the
\* perturbation: z ** w = exp(w ln z) wherever ln z and that exponential are decidable (z = 1; z a power of 2
\* with an integer exponent value); no power rule appears here.
CPow(z0, w0) == LET z == z0  w == w0 IN
  IF ~B!CDef(z[1]) \/ ~B!CDef(w[1]) \/ ~B!CIsReal(w[1]) THEN CU
  ELSE IF ~Flat(w) THEN CMath("exp", CMul(w, CMath("ln", z)))
  ELSE IF B!IsInt(w[1]) THEN
         (IF B!IntOf(w[1]) >= 0 THEN (IF B!IntOf(w[1]) > 6 THEN CU ELSE CPowNat(z, B!IntOf(w[1])))
          ELSE IF B!IntOf(w[1]) < -6 THEN CU ELSE CInv(CPowNat(z, -B!IntOf(w[1]))))
  ELSE IF B!IsHalf(w[1]) THEN CSqrt(z)
  ELSE CU
CCmpDef(z, w) == B!CCmpDef(z[1], w[1])
CLt(z, w) == B!CLt(z[1], w[1])
CSame(z, w) == z[1] = w[1]
CBool(b) == IF b THEN C1 ELSE C0
\* sign is locally constant away from 0
CSignum(z) == IF ~B!CDef(z[1]) \/ ~B!CIsReal(z[1]) THEN CU
              ELSE IF B!CIsZero(z[1]) /\ ~Flat(z) THEN <<B!C0, B!CU, B!CU, B!CU>>
              ELSE CLit(B!CSignum(z[1]))
CSelS(z) == <<z[2], B!CU, z[4], B!CU>>      \* d/ds : what is left can still be differentiated along t
CSelT(z) == <<z[3], z[4], B!CU, B!CU>>
CSeed(z, ds, dt) == <<z[1], B!CAdd(z[2], ds), B!CAdd(z[3], dt), z[4]>>
=============================================================================
