-------------------------------- MODULE Cells --------------------------------
(***************************************************************************)
(* C26.  Reference cell topology of ufl/cell.py.                           *)
(*                                                                         *)
(* Every cell is given by a COMBINATORIAL CONSTRUCTION of its face lattice *)
(* (not by a table of counts):                                             *)
(*   simplex of dimension n   every nonempty subset of n+1 vertices        *)
(*   hypercube of dimension n the strings over {0,1,free} of length n      *)
(*   prism                    product  triangle x interval                 *)
(*   pyramid                  cone over the quadrilateral                  *)
(*   TensorProductCell        product of the factors' face lattices        *)
(* A polytope is the set of its nonempty faces INCLUDING the polytope      *)
(* itself (the top face) and EXCLUDING the empty face; a face is a record  *)
(* [vs |-> set of vertex numbers, d |-> dimension].                        *)
(*                                                                         *)
(* Everything ufl's accessors return is DERIVED from the lattice: the      *)
(* number of d-dimensional sub-entities is the number of d-faces, the cell *)
(* type of a sub-entity F is the named cell that has the dimension and the *)
(* number of vertices of F, facets are the maximal proper faces, ridges    *)
(* the facets of facets, peaks the facets of ridges, a simplex is a        *)
(* polytope all of whose nonempty vertex subsets are faces.                *)
(*                                                                         *)
(* Phase 1 ("topo"): the state machine walks cell by cell, dimension by    *)
(* dimension, sub-entity by sub-entity (one action per step of the walk);  *)
(* the invariants are the theorems of the property about the current       *)
(* (cell, dimension, sub-entity).                                          *)
(* Phase 2 ("order"): it walks over all pairs of cells; the invariants are *)
(* the laws of a strict total order (the transitivity invariant quantifies *)
(* over every third cell).  Mode selects phase 1, phase 2 or both.         *)
(* The ASSUMEs at the end print the complete table of predicted accessor   *)
(* values (phase 1) and the cells in increasing order (phase 2).           *)
(***************************************************************************)
EXTENDS Integers, Sequences, FiniteSets, TLC, Json, SequencesExt

CONSTANTS Mode,       \* "topo", "order" or "both"
          MaxLen,     \* flat products: 1..MaxLen named factors
          NestLen,    \* nested products: 1..NestLen factors, each a named cell or
          InnerLen    \*   a flat product of 1..InnerLen named factors
\* all products have total topological dimension <= MaxDim
MaxDim == 3
\* f-vectors are tabulated for the dimensions 0..TopDim (pentatope, tesseract: 4)
TopDim == 4

(***************************************************************************)
(* Constructions                                                           *)
(***************************************************************************)
Face(vs, d) == [vs |-> vs, d |-> d]

Point == {Face({0}, 0)}

\* n-simplex on the vertices 0..n: every nonempty vertex subset is a face
Simplex(n) == {Face(S, Cardinality(S) - 1) : S \in (SUBSET (0..n)) \ {{}}}

\* n-cube: a face is a string f in {0,1,2}^n, 2 meaning "free"; its vertices are
\* the 0/1 strings that agree with f on the fixed coordinates (numbered in binary)
RECURSIVE BinVal(_, _)
BinVal(g, n) == IF n = 0 THEN 0 ELSE g[n] * 2^(n - 1) + BinVal(g, n - 1)
CubeVerts(f, n) ==
  {BinVal(g, n) : g \in {h \in [1..n -> {0, 1}] : \A i \in 1..n : f[i] # 2 => h[i] = f[i]}}
Hypercube(n) ==
  {Face(CubeVerts(f, n), Cardinality({i \in 1..n : f[i] = 2})) : f \in [1..n -> {0, 1, 2}]}

Verts(P) == UNION {F.vs : F \in P}
NV(P) == Cardinality(Verts(P))

\* product: faces are pairs of faces, vertices are pairs of vertices (p, q) -> p * |Q| + q
Product(P, Q) ==
  LET nq == NV(Q)
  IN  {Face({p * nq + q : p \in F.vs, q \in G.vs}, F.d + G.d) : F \in P, G \in Q}

\* cone (pyramid) over P with a new apex: the faces of P, their cones, and the apex
Cone(P) ==
  LET a == NV(P)
  IN  P \cup {Face(F.vs \cup {a}, F.d + 1) : F \in P} \cup {Face({a}, 0)}

(***************************************************************************)
(* Named cells.  The names are attached to constructions by convention;    *)
(* nothing below copies a count.                                           *)
(***************************************************************************)
Names == {"vertex", "interval", "triangle", "quadrilateral", "tetrahedron", "hexahedron",
          "prism", "pyramid", "pentatope", "tesseract"}

Construct(n) ==
  CASE n = "vertex"        -> Simplex(0)
    [] n = "interval"      -> Simplex(1)
    [] n = "triangle"      -> Simplex(2)
    [] n = "quadrilateral" -> Hypercube(2)
    [] n = "tetrahedron"   -> Simplex(3)
    [] n = "hexahedron"    -> Hypercube(3)
    [] n = "prism"         -> Product(Simplex(2), Simplex(1))
    [] n = "pyramid"       -> Cone(Hypercube(2))
    [] n = "pentatope"     -> Simplex(4)
    [] n = "tesseract"     -> Hypercube(4)

\* TLCEval forces TLC to evaluate a function constructor eagerly, once (otherwise the body would
\* be re-evaluated at every application)
NamedLat == TLCEval([n \in Names |-> Construct(n)])

(***************************************************************************)
(* Derived notions                                                         *)
(***************************************************************************)
SetMax(S) == CHOOSE x \in S : \A y \in S : y <= x
Dim(P) == SetMax({F.d : F \in P})
Top(P) == CHOOSE F \in P : F.vs = Verts(P)
Below(P, F) == {G \in P : G.vs \subseteq F.vs}        \* the closed face F as a polytope
FacesOfDim(P, k) == {G \in P : G.d = k}
Count(P, k) == Cardinality(FacesOfDim(P, k))
FVec(P) == [i \in 1..(TopDim + 1) |-> Count(P, i - 1)]  \* f-vector, entry i = dimension i-1

NamedDim == TLCEval([n \in Names |-> Dim(NamedLat[n])])
NamedNV  == TLCEval([n \in Names |-> NV(NamedLat[n])])

\* cell type of a polytope: the named cell with the same dimension and number of vertices
CandidatesDN(d, nv) == {n \in Names : NamedDim[n] = d /\ NamedNV[n] = nv}
TypeDN(d, nv) == CHOOSE n \in CandidatesDN(d, nv) : TRUE
Classifiable(P) == Cardinality(CandidatesDN(Dim(P), NV(P))) = 1
TypeName(P) == TypeDN(Dim(P), NV(P))
\* cell type of a face F of a polytope = TypeName(Below(P, F)); the closed face F has dimension
\* F.d and vertex set F.vs (invariant TypeInv), so the type can be read off the face
TypeTab == TLCEval([d \in 0..TopDim |-> [nv \in 1..(2^TopDim) |->
              IF CandidatesDN(d, nv) = {} THEN "none" ELSE TypeDN(d, nv)]])   \* = TypeDN, tabulated
FaceType(F) == TypeTab[F.d][Cardinality(F.vs)]

\* facets = maximal proper faces; ridges = facets of facets; peaks = facets of ridges
MaxProper(P) ==
  LET proper == P \ {Top(P)}
  IN  {F \in proper : ~\E G \in proper : F.vs \subseteq G.vs /\ F.vs # G.vs}
Facets(P) == MaxProper(P)
Ridges(P) == UNION {MaxProper(Below(P, F)) : F \in Facets(P)}
Peaks(P)  == UNION {MaxProper(Below(P, F)) : F \in Ridges(P)}

\* a simplex: every nonempty set of vertices spans a face, i.e. {F.vs : F \in P} is all of
\* (SUBSET Verts(P)) \ {{}}; faces are nonempty vertex sets, so it suffices to count them
IsSimplex(P) == Cardinality({F.vs : F \in P}) = 2^NV(P) - 1
HasSimplexFacets(P) == \A F \in Facets(P) : IsSimplex(Below(P, F))

RECURSIVE AltSum(_, _)      \* sum_{k=0}^{m} (-1)^k * n_k
AltSum(P, m) == IF m < 0 THEN 0
                ELSE AltSum(P, m - 1) + (IF m % 2 = 0 THEN 1 ELSE -1) * Count(P, m)

(***************************************************************************)
(* Cells as values: named cells and (possibly nested) products             *)
(***************************************************************************)
NamedCell(n) == [k |-> "named", name |-> n, fs |-> << >>, d |-> NamedDim[n]]
RECURSIVE SumDim(_, _)
SumDim(s, i) == IF i = 0 THEN 0 ELSE s[i].d + SumDim(s, i - 1)
ProdCell(s) == [k |-> "prod", name |-> "", fs |-> s, d |-> SumDim(s, Len(s))]

RECURSIVE Lat(_), ProdLat(_, _)
Lat(c) == IF c.k = "named" THEN NamedLat[c.name] ELSE ProdLat(c.fs, Len(c.fs))
ProdLat(s, i) == IF i = 0 THEN Point ELSE Product(ProdLat(s, i - 1), Lat(s[i]))

NamedU == {NamedCell(n) : n \in Names}
Named3 == {c \in NamedU : c.d <= MaxDim}
SeqsUpTo(S, L) == UNION {[1..n -> S] : n \in 1..L}
FlatProds(L) == {ProdCell(s) : s \in {t \in SeqsUpTo(Named3, L) : SumDim(t, Len(t)) <= MaxDim}}
NestedProds(L, I) ==
  {ProdCell(s) : s \in {t \in SeqsUpTo(Named3 \cup FlatProds(I), L) : SumDim(t, Len(t)) <= MaxDim}}
Universe == NamedU \cup FlatProds(MaxLen) \cup NestedProds(NestLen, InnerLen)

(***************************************************************************)
(* The intended cell order (AbstractCell.__lt__): class first ("Cell" <    *)
(* "TensorProductCell"), then topological dimension, then, within a class, *)
(* named cells alphabetically and products lexicographically by their      *)
(* factors, where a named factor precedes a product factor and a proper    *)
(* prefix precedes its extensions.                                         *)
(***************************************************************************)
Alpha == <<"hexahedron", "interval", "pentatope", "prism", "pyramid", "quadrilateral",
           "tesseract", "tetrahedron", "triangle", "vertex">>      \* alphabetical
RankTab == TLCEval([n \in Names |-> CHOOSE i \in 1..Len(Alpha) : Alpha[i] = n])
Rank(n) == RankTab[n]                 \* position of the name in the alphabet
KindRank(c) == IF c.k = "named" THEN 0 ELSE 1

RECURSIVE KeyLt(_, _), SeqLt(_, _)
KeyLt(x, y) ==
  CASE x.k = "named" /\ y.k = "named" -> Rank(x.name) < Rank(y.name)
    [] x.k = "named" /\ y.k = "prod"  -> TRUE
    [] x.k = "prod"  /\ y.k = "named" -> FALSE
    [] OTHER                          -> SeqLt(x.fs, y.fs)
SeqLt(s, t) ==
  \E i \in 1..(Len(s) + 1) :
     /\ i <= Len(t)
     /\ \A j \in 1..(i - 1) : s[j] = t[j]
     /\ (i <= Len(s) => KeyLt(s[i], t[i]))

Lt(x, y) == IF KindRank(x) # KindRank(y) THEN KindRank(x) < KindRank(y)
            ELSE IF x.d # y.d THEN x.d < y.d
            ELSE KeyLt(x, y)

(***************************************************************************)
(* Constant tables (each evaluated once, and only in the mode that needs   *)
(* it: TLC evaluates every constant definition eagerly at start-up)        *)
(***************************************************************************)
Topo  == Mode \in {"topo", "both"}     \* the topology phase is part of this run
Order == Mode \in {"order", "both"}    \* the order phase is part of this run
CellSeq  == SetToSeq(Universe)
NCells   == Len(CellSeq)
LatOf    == IF Topo THEN TLCEval([i \in 1..NCells |-> Lat(CellSeq[i])]) ELSE << >>
EntSeq   == IF Topo THEN TLCEval([i \in 1..NCells |->
               [e \in 1..(TopDim + 1) |-> SetToSeq(FacesOfDim(LatOf[i], e - 1))]]) ELSE << >>
Sorted   == IF Order THEN SortSeq(CellSeq, Lt) ELSE << >>     \* cells in increasing order
\* the relation Lt on the cells of Sorted, tabulated once: LtM[i][j] = Lt(Sorted[i], Sorted[j])
LtM      == IF Order THEN TLCEval([i \in 1..NCells |->
               TLCEval([j \in 1..NCells |-> Lt(Sorted[i], Sorted[j])])]) ELSE << >>

(***************************************************************************)
(* State machine: phase 1 walks over (cell, dimension, sub-entity), phase 2 *)
(* over all pairs of cells.  ei > 0 in phase 1, ei = 0 in phase 2.          *)
(***************************************************************************)
VARIABLES ci,   \* phase 1: index of the current cell in CellSeq  | phase 2: index of a in Sorted
          dd,   \* phase 1: current dimension                     | phase 2: index of b in Sorted
          ei    \* phase 1: index of the current sub-entity among those of dimension dd | phase 2: 0
vars == <<ci, dd, ei>>
InTopo  == ei > 0
InOrder == ei = 0

\* ---- phase 1 ----
\* the walk may start at the first vertex of any cell (the chains of different cells are then
\* explored in parallel); NextCell links them into the one walk over all cells
TInit == ci \in 1..NCells /\ dd = 0 /\ ei = 1
AtLastEntity == InTopo /\ ei = Len(EntSeq[ci][dd + 1])
NextEntity == /\ InTopo /\ ei < Len(EntSeq[ci][dd + 1])
              /\ ei' = ei + 1 /\ UNCHANGED <<ci, dd>>
NextDim    == /\ AtLastEntity /\ dd < CellSeq[ci].d
              /\ dd' = dd + 1 /\ ei' = 1 /\ UNCHANGED ci
NextCell   == /\ AtLastEntity /\ dd = CellSeq[ci].d /\ ci < NCells
              /\ ci' = ci + 1 /\ dd' = 0 /\ ei' = 1
\* ---- phase 2: all pairs (a, b) = (Sorted[ci], Sorted[dd]); the third cell is quantified ----
OInit == ci \in 1..NCells /\ dd = 1 /\ ei = 0
StartOrder == /\ Mode = "both" /\ AtLastEntity /\ dd = CellSeq[ci].d /\ ci = NCells
              /\ ci' \in 1..NCells /\ dd' = 1 /\ ei' = 0
NextPair   == /\ InOrder /\ dd < NCells
              /\ dd' = dd + 1 /\ UNCHANGED <<ci, ei>>

Init == IF Mode = "order" THEN OInit ELSE TInit
Next == NextEntity \/ NextDim \/ NextCell \/ StartOrder \/ NextPair
Spec == Init /\ [][Next]_vars

CurCell == CellSeq[ci]
CurLat  == LatOf[ci]
CurFace == EntSeq[ci][dd + 1][ei]
CurSub  == Below(CurLat, CurFace)          \* the current sub-entity as a polytope

\* the recorded dimension of the cell value is the dimension of its lattice
DimInv == InTopo => Dim(CurLat) = CurCell.d /\ CurCell.d <= TopDim

\* Euler characteristic.  Convention: n_k = number of k-faces of the CLOSED polytope for
\* k = 0..tdim, the polytope itself counted as its single tdim-face, the empty face not counted:
\*     sum_{k=0}^{tdim} (-1)^k n_k = 1            (a closed polytope is contractible)
\* equivalently for the boundary (a (tdim-1)-sphere; for tdim = 0 the empty set, chi = 0):
\*     sum_{k=0}^{tdim-1} (-1)^k n_k = 1 - (-1)^tdim
\* Checked for every sub-entity as a polytope of its own; the cell itself is the sub-entity the
\* walk visits last (dd = tdim, CurSub = CurLat).
EulerInv ==
  InTopo =>
  /\ AltSum(CurSub, dd) = 1
  /\ AltSum(CurSub, dd - 1) = 1 - (IF dd % 2 = 0 THEN 1 ELSE -1)
  /\ Count(CurSub, dd) = 1
  /\ \A k \in 0..TopDim : k > dd => Count(CurSub, k) = 0

\* every d-dimensional sub-entity is a (unique) named cell type of topological dimension d;
\* this includes the top entity of a product cell of dimension <= 3, which is combinatorially a
\* named cell (triangle x interval = prism, interval^3 = hexahedron, vertex x c = c, ...)
TypeInv ==
  InTopo =>
  /\ Dim(CurSub) = dd /\ CurFace.d = dd /\ Verts(CurSub) = CurFace.vs
  /\ Classifiable(CurSub) /\ NamedDim[TypeName(CurSub)] = dd
  /\ FaceType(CurFace) = TypeName(CurSub)
  /\ (dd = CurCell.d /\ CurCell.k = "named") => TypeName(CurSub) = CurCell.name

\* recursive consistency: the sub-entity, as a polytope of its own, has exactly the sub-entity
\* counts AND sub-entity types that the named cell of its type has by its own construction
TypeBag(P, k) == [n \in Names |->
                    Cardinality({G \in FacesOfDim(P, k) : FaceType(G) = n})]
RecursiveInv ==
  InTopo =>
     LET T == NamedLat[TypeName(CurSub)]
     IN  /\ FVec(CurSub) = FVec(T)
         /\ \A k \in 0..dd : TypeBag(CurSub, k) = TypeBag(T, k)
         /\ IsSimplex(CurSub) = IsSimplex(T)

\* facets / ridges / peaks (defined by maximality) are the entities of dimension tdim-1/-2/-3
\* (a statement about the whole cell: checked when the walk stands on its top face)
FacetInv ==
  (InTopo /\ dd = CurCell.d) =>
  /\ CurSub = CurLat
  /\ Facets(CurLat) = FacesOfDim(CurLat, CurCell.d - 1)
  /\ Ridges(CurLat) = FacesOfDim(CurLat, CurCell.d - 2)
  /\ Peaks(CurLat)  = FacesOfDim(CurLat, CurCell.d - 3)

\* diamond property of a polytope: between a (d-2)-face and a d-face containing it lie exactly
\* two (d-1)-faces; an edge has exactly two vertices
DiamondInv ==
  InTopo =>
  /\ dd = 1 => Cardinality(CurFace.vs) = 2
  /\ \A G \in FacesOfDim(CurSub, dd - 2) :
        Cardinality({H \in FacesOfDim(CurSub, dd - 1) : G.vs \subseteq H.vs}) = 2

\* ---- the laws of a strict total order, on the pair (A, B) and every third cell ----
A == Sorted[ci]
B == Sorted[dd]
L(i, j) == LtM[i][j]                   \* Lt(Sorted[i], Sorted[j])
Irreflexive == InOrder => ~L(ci, ci)
Asymmetric  == InOrder => (L(ci, dd) => ~L(dd, ci))
Trichotomy  == InOrder =>
               /\ L(ci, dd) \/ A = B \/ L(dd, ci)
               /\ ~(L(ci, dd) /\ A = B) /\ ~(L(dd, ci) /\ A = B) /\ ~(L(ci, dd) /\ L(dd, ci))
Transitive  == (InOrder /\ L(ci, dd)) => \A i \in 1..NCells : L(dd, i) => L(ci, i)
\* the printed sequence represents the order exactly
SortedInv   == InOrder => (L(ci, dd) <=> ci < dd) /\ (A = B <=> ci = dd)
\* the order refines "class, then topological dimension"
RefinesInv  == InOrder =>
               /\ (A.k = "named" /\ B.k = "prod") => L(ci, dd)
               /\ (A.k = B.k /\ A.d < B.d) => L(ci, dd)

\* the constructions agree with each other (cross-checks of the first principles; a
\* constant-level theorem, checked once through the ASSUME at the end of the module)
SameShape(P, Q) == FVec(P) = FVec(Q) /\ \A k \in 0..TopDim : TypeBag(P, k) = TypeBag(Q, k)
ConstructionsAgree ==
  /\ \A n \in 1..TopDim : SameShape(Simplex(n), Cone(Simplex(n - 1)))
  /\ \A n \in 1..TopDim : SameShape(Hypercube(n), Product(Hypercube(n - 1), Simplex(1)))
  /\ SameShape(NamedLat["prism"], Product(Simplex(1), Simplex(2)))
  /\ Hypercube(0) = Point /\ Simplex(0) = Point
  /\ \A n \in Names : \A m \in Names :
        (NamedDim[n] = NamedDim[m] /\ NamedNV[n] = NamedNV[m]) => n = m

(***************************************************************************)
(* Tables handed to the conformance check                                  *)
(***************************************************************************)
AlphaSet == {Alpha[i] : i \in 1..Len(Alpha)}
\* type names of a set S of faces of P, as a bag: sequence of [t |-> name, n |-> multiplicity];
\* the top face of a product cell is the cell itself ("self"); the single entity of a
\* 0-dimensional product is at the same time its vertex and is reported as a vertex
NameOfFace(c, F) == IF c.k = "prod" /\ F.d = c.d /\ c.d > 0 THEN "self" ELSE FaceType(F)
Bag(c, S) ==
  LET names == {NameOfFace(c, F) : F \in S}
  IN  SetToSeq({[t |-> n, n |-> Cardinality({F \in S : NameOfFace(c, F) = n})] : n \in names})

DimRow(c, P, k) == [d |-> k, n |-> Count(P, k), bag |-> Bag(c, FacesOfDim(P, k))]

Row(c, P) ==
  [cell   |-> c,
   tdim   |-> Dim(P),
   dims   |-> [i \in 1..(c.d + 3) |-> DimRow(c, P, i - 2)],      \* d = -1 .. tdim+1
   nv     |-> NV(P),
   nfacets |-> Cardinality(Facets(P)),
   nridges |-> Cardinality(Ridges(P)),
   npeaks  |-> Cardinality(Peaks(P)),
   facets |-> Bag(c, Facets(P)),
   ridges |-> Bag(c, Ridges(P)),
   peaks  |-> Bag(c, Peaks(P)),
   simplex |-> IsSimplex(P),
   simplex_facets |-> HasSimplexFacets(P),
   iso    |-> IF Classifiable(P) THEN TypeName(P) ELSE "none",
   euler  |-> AltSum(P, Dim(P))]

SimplexName(n)   == CHOOSE m \in Names : NamedLat[m] = Simplex(n)
HypercubeName(n) == CHOOSE m \in Names : NamedLat[m] = Hypercube(n)

TopoTable ==
  IF ~Topo THEN [kind |-> "none"] ELSE
  [kind      |-> "topo",
   rows      |-> [i \in 1..NCells |-> Row(CellSeq[i], LatOf[i])],
   simplex   |-> [i \in 1..(TopDim + 1) |-> SimplexName(i - 1)],
   hypercube |-> [i \in 1..(TopDim + 1) |-> HypercubeName(i - 1)],
   alpha     |-> Alpha]
OrderTable == IF ~Order THEN [kind |-> "none"] ELSE [kind |-> "order", sorted |-> Sorted, alpha |-> Alpha]

ASSUME Mode \in {"topo", "order", "both"}
ASSUME ConstructionsAgree
ASSUME AlphaSet = Names /\ Len(Alpha) = Cardinality(Names)
ASSUME Topo => PrintT(ToJson(TopoTable))
ASSUME Order => PrintT(ToJson(OrderTable))
=============================================================================
